// Replay for finding F7 (C10): with the attribute transform skipped, the
// kd-tree decoder returns the quantized attribute under unique id 0 instead of
// its original unique id (the sequential decoder keeps it).
// Exit 0 = ids preserved by both methods, 1 = violated.
#include <cstdio>
#include "draco/compression/decode.h"
#include "draco/compression/encode.h"
#include "draco/point_cloud/point_cloud_builder.h"

static int run(int method) {
  draco::PointCloudBuilder b;
  b.Start(4);
  int pos = b.AddAttribute(draco::GeometryAttribute::POSITION, 3, draco::DT_FLOAT32);
  int gen = b.AddAttribute(draco::GeometryAttribute::GENERIC, 3, draco::DT_FLOAT32);
  for (int i = 0; i < 4; ++i) {
    float p[3] = {float(i), float(i * i), 1.f};
    float q[3] = {0.5f * i, 2.f, float(3 - i)};
    b.SetAttributeValueForPoint(pos, draco::PointIndex(i), p);
    b.SetAttributeValueForPoint(gen, draco::PointIndex(i), q);
  }
  auto pc = b.Finalize(false);
  pc->attribute(pos)->set_unique_id(7);
  pc->attribute(gen)->set_unique_id(42);
  draco::Encoder enc;
  enc.SetEncodingMethod(method);
  enc.SetSpeedOptions(5, 5);
  enc.SetAttributeQuantization(draco::GeometryAttribute::POSITION, 10);
  enc.SetAttributeQuantization(draco::GeometryAttribute::GENERIC, 10);
  draco::EncoderBuffer buf;
  if (!enc.EncodePointCloudToBuffer(*pc, &buf).ok()) return 2;
  draco::DecoderBuffer db;
  db.Init(buf.data(), buf.size());
  draco::Decoder dec;
  dec.SetSkipAttributeTransform(draco::GeometryAttribute::POSITION);
  dec.SetSkipAttributeTransform(draco::GeometryAttribute::GENERIC);
  auto r = dec.DecodePointCloudFromBuffer(&db);
  if (!r.ok()) return 2;
  const draco::PointCloud &d = *r.value();
  int bad = 0;
  std::printf("method %d:", method);
  for (int a = 0; a < d.num_attributes(); ++a) {
    const auto *att = d.attribute(a);
    std::printf(" [type %d unique_id %u]", att->attribute_type(), att->unique_id());
    unsigned want = att->attribute_type() == draco::GeometryAttribute::POSITION ? 7 : 42;
    if (att->unique_id() != want) bad = 1;
  }
  std::printf("\n");
  return bad;
}

int main() {
  int a = run(draco::POINT_CLOUD_SEQUENTIAL_ENCODING);
  int b = run(draco::POINT_CLOUD_KD_TREE_ENCODING);
  return (a | b) ? 1 : 0;
}
