// Replay for finding F11 (C03): a legacy (bitstream 2.2) kd-tree point-cloud stream whose attribute
// block declares fewer points than the header.  PointCloudKdTreeDecoder::DecodeGeometryData takes
// num_points (here 1000) from the header; the legacy branch of
// KdTreeAttributesDecoder::DecodeDataNeededByPortableTransforms sizes every attribute from the
// num_points of the *attribute block* (here 2), gives it the identity point->value mapping and
// never compares the two: decoding returns OK with 1000 points whose POSITION attribute has 2
// values, so mapped_index(p) >= size() for 998 points (reading them is out of bounds).
// Found by IDENTITY-SIZE.  Exit 0 = rejected or consistent, 1 = property violated.
#include <cstdint>
#include <cstdio>
#include <cstring>
#include <vector>
#include "draco/compression/decode.h"

static void put32(std::vector<uint8_t> *b, uint32_t v) { for (int i = 0; i < 4; ++i) b->push_back((v >> (8 * i)) & 0xff); }

int main() {
  int bad = 0;
  for (int method = 1; method >= 1; --method) {
    std::vector<uint8_t> s = {'D', 'R', 'A', 'C', 'O', 2, 2, 0 /*POINT_CLOUD*/, 1 /*KD_TREE*/, 0, 0 /*flags*/};
    put32(&s, 1000);            // header: num_points
    s.push_back(1);             // one attributes decoder
    s.push_back(1);             // varint: one attribute
    s.push_back(0);             // POSITION
    s.push_back(6);             // DT_UINT32
    s.push_back(3);             // components
    s.push_back(0);             // normalized
    s.push_back(0);             // varint unique id
    s.push_back(1);             // kKdTreeIntegerEncoding
    s.push_back(0);             // compression level
    put32(&s, 2);               // attribute block: num_points
    put32(&s, 0);               // kd-tree: bit_length
    put32(&s, 0);               // kd-tree: num_points (nothing coded)
    for (int i = 0; i < 16; ++i) s.push_back(0);
    draco::DecoderBuffer buf;
    buf.Init(reinterpret_cast<const char *>(s.data()), s.size());
    draco::Decoder dec;
    auto r = dec.DecodePointCloudFromBuffer(&buf);
    if (!r.ok()) { printf("rejected: %s\n", r.status().error_msg()); continue; }
    auto pc = std::move(r).value();
    const draco::PointAttribute *a = pc->attribute(0);
    uint32_t worst = 0;
    for (draco::PointIndex p(0); p < pc->num_points(); ++p) {
      const uint32_t v = a->mapped_index(p).value();
      if (v > worst) worst = v;
    }
    printf("decode ok: %u points, attribute has %zu values, largest mapped index %u\n", pc->num_points(), a->size(), worst);
    if (worst >= a->size()) { printf("VIOLATION: points map to attribute values that do not exist\n"); bad = 1; }
  }
  return bad;
}
