// Replay for finding F2 (C09): Encoder::EncodePointCloudToBuffer never copies
// the reported counts.  Exit 0 = property holds, 1 = violated.
#include <cstdio>
#include "draco/compression/decode.h"
#include "draco/compression/encode.h"
#include "draco/point_cloud/point_cloud_builder.h"

int main() {
  draco::PointCloudBuilder b;
  b.Start(3);
  int pos = b.AddAttribute(draco::GeometryAttribute::POSITION, 3, draco::DT_FLOAT32);
  for (int i = 0; i < 3; ++i) {
    float p[3] = {float(i), float(2 * i), float(3 * i)};
    b.SetAttributeValueForPoint(pos, draco::PointIndex(i), p);
  }
  auto pc = b.Finalize(false);
  draco::Encoder enc;
  enc.SetTrackEncodedProperties(true);
  draco::EncoderBuffer buf;
  if (!enc.EncodePointCloudToBuffer(*pc, &buf).ok()) return 2;
  draco::DecoderBuffer db;
  db.Init(buf.data(), buf.size());
  draco::Decoder dec;
  auto r = dec.DecodePointCloudFromBuffer(&db);
  if (!r.ok()) return 2;
  std::printf("reported=%zu decoded=%u\n", enc.num_encoded_points(),
              (unsigned)r.value()->num_points());
  return enc.num_encoded_points() == r.value()->num_points() ? 0 : 1;
}
