// Replay for findings F3 and F4 (C11).
//  F3: a metadata entry / sub-metadata name longer than 255 bytes: the encoder
//      must report failure; instead it reports success and the stream does not
//      decode.
//  F4: an entry with an empty value encodes fine and the stream fails to decode.
// Exit 0 = property holds for these inputs, 1 = violated.
#include <cstdio>
#include <memory>
#include <string>
#include "draco/compression/decode.h"
#include "draco/compression/encode.h"
#include "draco/mesh/triangle_soup_mesh_builder.h"
#include "draco/metadata/geometry_metadata.h"

static std::unique_ptr<draco::Mesh> tri() {
  draco::TriangleSoupMeshBuilder mb;
  mb.Start(1);
  int pos = mb.AddAttribute(draco::GeometryAttribute::POSITION, 3, draco::DT_FLOAT32);
  float a[3] = {0, 0, 0}, b[3] = {1, 0, 0}, c[3] = {0, 1, 0};
  mb.SetAttributeValuesForFace(pos, draco::FaceIndex(0), a, b, c);
  return mb.Finalize();
}

// returns 1 if "encode ok but decode fails / differs"
static int round_trip(draco::Mesh *m, const char *what) {
  draco::Encoder enc;
  draco::EncoderBuffer buf;
  draco::Status s = enc.EncodeMeshToBuffer(*m, &buf);
  if (!s.ok()) {
    std::printf("%s: encoder reports failure (allowed)\n", what);
    return 0;
  }
  draco::DecoderBuffer db;
  db.Init(buf.data(), buf.size());
  draco::Decoder dec;
  auto r = dec.DecodeMeshFromBuffer(&db);
  if (!r.ok()) {
    std::printf("%s: encode ok, decode FAILS: %s\n", what, r.status().error_msg());
    return 1;
  }
  const draco::GeometryMetadata *a = m->GetMetadata(), *b = r.value()->GetMetadata();
  if ((a == nullptr) != (b == nullptr)) return 1;
  if (a) {
    if (a->entries().size() != b->entries().size()) {
      std::printf("%s: entry count differs\n", what);
      return 1;
    }
    for (const auto &e : a->entries()) {
      auto it = b->entries().find(e.first);
      if (it == b->entries().end() || it->second.data() != e.second.data()) {
        std::printf("%s: entry '%s' differs after the round trip\n", what, e.first.c_str());
        return 1;
      }
    }
  }
  std::printf("%s: round trip ok, entries byte-identical\n", what);
  return 0;
}

int main() {
  int bad = 0;
  {
    auto m = tri();
    auto md = std::unique_ptr<draco::GeometryMetadata>(new draco::GeometryMetadata());
    md->AddEntryString(std::string(300, 'n'), "v");
    m->AddMetadata(std::move(md));
    bad |= round_trip(m.get(), "F3 entry name of 300 bytes");
  }
  {
    auto m = tri();
    auto md = std::unique_ptr<draco::GeometryMetadata>(new draco::GeometryMetadata());
    auto sub = std::unique_ptr<draco::Metadata>(new draco::Metadata());
    auto subsub = std::unique_ptr<draco::Metadata>(new draco::Metadata());
    subsub->AddEntryInt("x", 1);
    sub->AddSubMetadata(std::string(300, 's'), std::move(subsub));
    md->AddSubMetadata("level1", std::move(sub));
    m->AddMetadata(std::move(md));
    bad |= round_trip(m.get(), "F3 nested sub-metadata name of 300 bytes");
  }
  {
    auto m = tri();
    auto md = std::unique_ptr<draco::GeometryMetadata>(new draco::GeometryMetadata());
    md->AddEntryString("name", "");
    m->AddMetadata(std::move(md));
    bad |= round_trip(m.get(), "F4 entry with empty value");
  }
  return bad;
}
