// Replay for finding F9 (C01): a mesh encoded with the sequential method and
// entropy-coded connectivity ("compress_connectivity") encodes successfully but
// the decoder rejects it: DecodeConnectivity applies the plausibility guard
// `num_faces > remaining_size / 3` (three bytes per face, true for raw indices
// only) before it knows that the indices are entropy coded, and a regular
// mesh compresses to far fewer than three bytes per face.
// Exit 0 = round trip succeeds, 1 = property violated.
#include <cstdio>
#include <cstdlib>
#include "draco/compression/decode.h"
#include "draco/compression/encode.h"
#include "draco/mesh/triangle_soup_mesh_builder.h"

static int run(int N) {
  draco::TriangleSoupMeshBuilder mb;
  mb.Start(2 * N * N);
  int pos = mb.AddAttribute(draco::GeometryAttribute::POSITION, 3, draco::DT_FLOAT32);
  int f = 0;
  auto P = [](int x, int y) { return draco::Vector3f(float(x), float(y), 0.f); };
  for (int y = 0; y < N; ++y)
    for (int x = 0; x < N; ++x) {
      mb.SetAttributeValuesForFace(pos, draco::FaceIndex(f++), P(x, y).data(), P(x + 1, y).data(), P(x, y + 1).data());
      mb.SetAttributeValuesForFace(pos, draco::FaceIndex(f++), P(x + 1, y).data(), P(x + 1, y + 1).data(), P(x, y + 1).data());
    }
  auto mesh = mb.Finalize();
  draco::Encoder enc;
  enc.SetEncodingMethod(draco::MESH_SEQUENTIAL_ENCODING);
  enc.SetSpeedOptions(5, 5);
  enc.SetAttributeQuantization(draco::GeometryAttribute::POSITION, 8);
  enc.options().SetGlobalBool("compress_connectivity", true);
  draco::EncoderBuffer buf;
  auto s = enc.EncodeMeshToBuffer(*mesh, &buf);
  if (!s.ok()) {
    std::printf("N=%d: encoder reports failure (allowed)\n", N);
    return 0;
  }
  draco::DecoderBuffer db;
  db.Init(buf.data(), buf.size());
  draco::Decoder dec;
  auto r = dec.DecodeMeshFromBuffer(&db);
  std::printf("N=%d: faces=%u bytes=%zu encode=ok decode=%s\n", N, (unsigned)mesh->num_faces(), buf.size(),
              r.ok() ? "ok" : r.status().error_msg());
  if (!r.ok()) return 1;
  return (r.value()->num_faces() == mesh->num_faces() && r.value()->num_points() == mesh->num_points()) ? 0 : 1;
}

int main() {
  int bad = 0;
  for (int n : {2, 10, 50, 300}) bad |= run(n);
  return bad;
}
