// Replay for finding F6 (C18): the portable tex-coord decoder sizes its
// orientation table by an unguarded int32 from the stream.
// Encodes a small textured grid (speed 0 -> TEX_COORDS_PORTABLE), then for every
// byte offset overwrites 4 bytes with 0x7fffffff, decodes, and records the
// largest single allocation requested while decoding.  Exit 1 when some
// mutated stream requests more than 64 KiB per input byte.
#include <cstdio>
#include <cstdlib>
#include <cstring>
#include <new>
#include <vector>

#include "draco/compression/decode.h"
#include "draco/compression/encode.h"
#include "draco/mesh/triangle_soup_mesh_builder.h"

static size_t g_max_alloc = 0;
static bool g_track = false;
void *operator new(size_t n) {
  if (g_track && n > g_max_alloc) g_max_alloc = n;
  if (g_track && n > (size_t(1) << 26)) throw std::bad_alloc();  // refuse >64 MiB: we only measure the request
  void *p = std::malloc(n);
  if (!p) throw std::bad_alloc();
  return p;
}
void operator delete(void *p) noexcept { std::free(p); }
void operator delete(void *p, size_t) noexcept { std::free(p); }

int main() {
  draco::TriangleSoupMeshBuilder mb;
  const int N = 5;  // 5x5 quads = 50 faces
  mb.Start(2 * N * N);
  int pos = mb.AddAttribute(draco::GeometryAttribute::POSITION, 3, draco::DT_FLOAT32);
  int tex = mb.AddAttribute(draco::GeometryAttribute::TEX_COORD, 2, draco::DT_FLOAT32);
  int f = 0;
  auto P = [](int x, int y) { return draco::Vector3f(x, y, 0.1f * ((x * 7 + y * 3) % 5)); };
  auto T = [](int x, int y) { return draco::Vector2f(x / 5.f, y / 5.f); };
  for (int y = 0; y < N; ++y)
    for (int x = 0; x < N; ++x) {
      mb.SetAttributeValuesForFace(pos, draco::FaceIndex(f), P(x, y).data(), P(x + 1, y).data(), P(x, y + 1).data());
      mb.SetAttributeValuesForFace(tex, draco::FaceIndex(f), T(x, y).data(), T(x + 1, y).data(), T(x, y + 1).data());
      ++f;
      mb.SetAttributeValuesForFace(pos, draco::FaceIndex(f), P(x + 1, y).data(), P(x + 1, y + 1).data(), P(x, y + 1).data());
      mb.SetAttributeValuesForFace(tex, draco::FaceIndex(f), T(x + 1, y).data(), T(x + 1, y + 1).data(), T(x, y + 1).data());
      ++f;
    }
  auto mesh = mb.Finalize();
  draco::Encoder enc;
  enc.SetSpeedOptions(0, 0);
  enc.SetAttributeQuantization(draco::GeometryAttribute::POSITION, 10);
  enc.SetAttributeQuantization(draco::GeometryAttribute::TEX_COORD, 10);
  draco::EncoderBuffer buf;
  if (!enc.EncodeMeshToBuffer(*mesh, &buf).ok()) return 2;
  std::vector<char> orig(buf.data(), buf.data() + buf.size());
  size_t worst = 0, worst_off = 0;
  const unsigned char pat[4] = {0xff, 0xff, 0xff, 0x7f};
  for (size_t off = 0; off + 4 <= orig.size(); ++off) {
    std::vector<char> s = orig;
    std::memcpy(&s[off], pat, 4);
    draco::DecoderBuffer db;
    db.Init(s.data(), s.size());
    draco::Decoder dec;
    g_max_alloc = 0;
    g_track = true;
    try {
      auto r = dec.DecodeMeshFromBuffer(&db);
      (void)r;
    } catch (const std::bad_alloc &) {
    }
    g_track = false;
    if (g_max_alloc > worst) {
      worst = g_max_alloc;
      worst_off = off;
    }
  }
  std::printf("stream=%zu bytes, largest single allocation request=%zu bytes (pattern at offset %zu)\n",
              orig.size(), worst, worst_off);
  return worst > orig.size() * 65536 ? 1 : 0;
}
