#!/bin/sh
# Builds one concrete replay driver against /repo's built library and runs it.
# These drivers document that a statically reported finding is a genuine
# defect; they are not part of any registered check.
# usage: replay/run.sh <driver.cc> [extra args]
set -e
src="$1"; shift
d=$(mktemp -d)
trap 'rm -rf "$d"' EXIT
cmake --build /repo/_build --target draco_static -j16 >/dev/null 2>&1 || cmake --build /repo/_build -j16 >/dev/null
g++ -std=gnu++17 -O1 -I/repo/src -I/repo/_build "$src" /repo/_build/libdraco.a -o "$d/replay"
"$d/replay" "$@"
