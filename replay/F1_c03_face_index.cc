// Replay for finding F1 (C03): the sequential mesh decoder accepts a face index
// >= num_points.  Encodes a 2-triangle mesh with the sequential method (raw
// indices, and entropy-coded indices), corrupts index bytes, and checks that a
// successful decode never returns a face that refers to a non-existing point.
// Exit 1 when such a mesh is returned.
#include <cstdio>
#include <vector>
#include "draco/compression/decode.h"
#include "draco/compression/encode.h"
#include "draco/mesh/triangle_soup_mesh_builder.h"

static int check(const std::vector<char> &s, const char *what) {
  draco::DecoderBuffer db;
  db.Init(s.data(), s.size());
  draco::Decoder dec;
  auto r = dec.DecodeMeshFromBuffer(&db);
  if (!r.ok()) return 0;
  const auto &m = *r.value();
  for (draco::FaceIndex f(0); f < m.num_faces(); ++f)
    for (int c = 0; c < 3; ++c)
      if (m.face(f)[c].value() >= m.num_points()) {
        std::printf("%s: decode ok, num_points=%u but face %u corner %d = %u\n", what,
                    (unsigned)m.num_points(), f.value(), c, m.face(f)[c].value());
        return 1;
      }
  return 0;
}

int main() {
  draco::TriangleSoupMeshBuilder mb;
  mb.Start(2);
  int pos = mb.AddAttribute(draco::GeometryAttribute::POSITION, 3, draco::DT_FLOAT32);
  float p[4][3] = {{0, 0, 0}, {1, 0, 0}, {0, 1, 0}, {1, 1, 0}};
  mb.SetAttributeValuesForFace(pos, draco::FaceIndex(0), p[0], p[1], p[2]);
  mb.SetAttributeValuesForFace(pos, draco::FaceIndex(1), p[1], p[3], p[2]);
  auto mesh = mb.Finalize();
  int bad = 0;
  for (int compress = 0; compress < 2; ++compress) {
    draco::Encoder enc;
    enc.SetEncodingMethod(draco::MESH_SEQUENTIAL_ENCODING);
    enc.SetSpeedOptions(10, 10);
    if (compress) enc.options().SetGlobalBool("compress_connectivity", true);
    draco::EncoderBuffer buf;
    if (!enc.EncodeMeshToBuffer(*mesh, &buf).ok()) return 2;
    std::vector<char> orig(buf.data(), buf.data() + buf.size());
    int found = 0;
    for (size_t off = 10; off < orig.size() && !found; ++off)
      for (int v = 1; v < 256 && !found; v += 2) {
        std::vector<char> s = orig;
        s[off] = (char)v;
        char what[64];
        std::snprintf(what, sizeof what, "compress=%d byte[%zu]=%d", compress, off, v);
        found = check(s, what);
        bad |= found;
      }
  }
  return bad;
}
