// Replay for finding F10 (C01): a mesh with INTEGER normals (DT_INT8) and quantized
// positions, Edgebreaker, speed < 4.  SelectPredictionMethod picks
// MESH_PREDICTION_GEOMETRIC_NORMAL for every NORMAL attribute, but integer normals are coded
// by SequentialIntegerAttributeEncoder with the wrap transform:
// MeshPredictionSchemeGeometricNormalEncoder<int, PredictionSchemeWrapEncodingTransform> then
// calls the stub PredictionSchemeWrapTransformBase::quantization_bits()
// (`DRACO_DCHECK(false); return -1;`), the octahedron tool box is never initialised, the
// 3-component data is walked as 2-component octahedral coordinates: encode and decode both
// return OK and the decoded normals differ from the input.  Same through a forced
// prediction scheme (SetAttributePredictionScheme(NORMAL, MESH_PREDICTION_GEOMETRIC_NORMAL)).
// Found by STUBREACH.  Exit 0 = round trip exact, 1 = property violated.
#include <array>
#include <algorithm>
#include <cstdio>
#include <vector>
#include "draco/compression/encode.h"
#include "draco/compression/decode.h"
#include "draco/mesh/triangle_soup_mesh_builder.h"
using namespace draco;
int main() {
  // grid mesh 6x6 with float positions and int8 normals
  const int N = 7;
  TriangleSoupMeshBuilder mb;
  const int nf = (N - 1) * (N - 1) * 2;
  mb.Start(nf);
  const int pos = mb.AddAttribute(GeometryAttribute::POSITION, 3, DT_FLOAT32);
  const int nor = mb.AddAttribute(GeometryAttribute::NORMAL, 3, DT_INT8);
  auto P = [&](int x, int y) { return Vector3f(x, y, 0.3f * ((x * 7 + y * 3) % 5)); };
  auto Nn = [&](int x, int y, int8_t *o) { o[0] = (int8_t)((x * 13 + y * 7) % 100 - 50); o[1] = (int8_t)((x * 5 + y * 11) % 90 - 45); o[2] = 100; };
  int f = 0;
  for (int y = 0; y < N - 1; ++y) for (int x = 0; x < N - 1; ++x) {
    int q[4][2] = {{x, y}, {x + 1, y}, {x + 1, y + 1}, {x, y + 1}};
    int tri[2][3] = {{0, 1, 2}, {0, 2, 3}};
    for (int t = 0; t < 2; ++t) {
      Vector3f p[3]; int8_t n[3][3];
      for (int k = 0; k < 3; ++k) { p[k] = P(q[tri[t][k]][0], q[tri[t][k]][1]); Nn(q[tri[t][k]][0], q[tri[t][k]][1], n[k]); }
      mb.SetAttributeValuesForFace(pos, FaceIndex(f), p[0].data(), p[1].data(), p[2].data());
      mb.SetAttributeValuesForFace(nor, FaceIndex(f), n[0], n[1], n[2]);
      ++f;
    }
  }
  auto mesh = mb.Finalize();
  int bad = 0;
  for (int run = 0; run < 6; ++run) {
    const int speed = (run % 3 == 0) ? 0 : (run % 3 == 1 ? 3 : 5);
    const bool forced = run >= 3;
    Encoder enc; enc.SetSpeedOptions(speed, speed); enc.SetEncodingMethod(MESH_EDGEBREAKER_ENCODING);
    if (forced) {
      Status fs = enc.SetAttributePredictionScheme(GeometryAttribute::NORMAL, MESH_PREDICTION_GEOMETRIC_NORMAL);
      if (!fs.ok()) { printf("forced scheme refused: %s\n", fs.error_msg()); continue; }
    }
    enc.SetAttributeQuantization(GeometryAttribute::POSITION, 11);
    EncoderBuffer eb; Status st = enc.EncodeMeshToBuffer(*mesh, &eb);
    if (!st.ok()) { printf("speed %d encode failed: %s\n", speed, st.error_msg()); continue; }
    DecoderBuffer db; db.Init(eb.data(), eb.size()); Decoder dec; auto r = dec.DecodeMeshFromBuffer(&db);
    if (!r.ok()) { printf("speed %d DECODE FAILED: %s\n", speed, r.status().error_msg()); bad++; continue; }
    auto m2 = std::move(r).value();
    const PointAttribute *a = m2->GetNamedAttribute(GeometryAttribute::NORMAL);
    const PointAttribute *a0 = mesh->GetNamedAttribute(GeometryAttribute::NORMAL);
    // compare multiset of normal values
    std::vector<std::array<int8_t,3>> v0, v1;
    for (PointIndex i(0); i < mesh->num_points(); ++i) { std::array<int8_t,3> x; a0->GetMappedValue(i, x.data()); v0.push_back(x);} 
    for (PointIndex i(0); i < m2->num_points(); ++i) { std::array<int8_t,3> x; a->GetMappedValue(i, x.data()); v1.push_back(x);} 
    std::sort(v0.begin(), v0.end()); std::sort(v1.begin(), v1.end());
    printf("%sspeed %d: %zu bytes, normals %s (points %zu/%zu)\n", forced ? "forced geometric-normal, " : "", speed, eb.size(), v0 == v1 ? "equal" : "DIFFER", v0.size(), v1.size());
    bad += v0 != v1;
  }
  return bad ? 1 : 0;
}
