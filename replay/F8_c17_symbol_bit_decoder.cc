// Replay for finding F8 (C17): SymbolBitDecoder reads past the written data
// with back()/pop_back() on an empty vector.  The decoder sources are compiled
// into this driver with AddressSanitizer + libstdc++ assertions so that the
// out-of-bounds access aborts instead of silently returning garbage.
// Exit 0 = reading past the end yields zeros; non-zero = property violated.
#include <cstdio>
#include "draco/compression/bit_coders/symbol_bit_decoder.cc"
#include "draco/compression/bit_coders/symbol_bit_encoder.h"
#include "draco/core/decoder_buffer.h"
#include "draco/core/encoder_buffer.h"
#include "draco/compression/config/compression_shared.h"

int main() {
  draco::SymbolBitEncoder enc;
  enc.StartEncoding();
  enc.EncodeLeastSignificantBits32(5, 17);
  enc.EncodeLeastSignificantBits32(5, 18);
  enc.EncodeLeastSignificantBits32(5, 19);
  draco::EncoderBuffer buf;
  enc.EndEncoding(&buf);
  draco::DecoderBuffer db;
  db.Init(buf.data(), buf.size(), draco::kDracoMeshBitstreamVersion);
  draco::SymbolBitDecoder dec;
  if (!dec.StartDecoding(&db)) return 2;
  int bad = 0;
  for (int i = 0; i < 5; ++i) {
    uint32_t v = 0xdeadbeef;
    dec.DecodeLeastSignificantBits32(5, &v);
    std::printf("read %d -> %u\n", i, v);
    if (i >= 3 && v != 0) bad = 1;
  }
  return bad;
}
