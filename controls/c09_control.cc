// Positive control for C09/MUSTPASS: a facade that returns the worker's
// status without copying the reported counts.  Never linked into anything.
#include "draco/compression/encode_base.h"
#include "draco/compression/encode.h"
#include "draco/compression/expert_encode.h"

namespace verif_control {

class C09Facade : public draco::EncoderBase<draco::EncoderOptions> {
 public:
  draco::Status EncodeMeshToBuffer(const draco::Mesh &m,
                                   draco::EncoderBuffer *out_buffer) {
    draco::ExpertEncoder encoder(m);
    return encoder.EncodeToBuffer(out_buffer);
  }
};

draco::Status c09_use(const draco::Mesh &m, draco::EncoderBuffer *b) {
  C09Facade f;
  return f.EncodeMeshToBuffer(m, b);
}

// Instantiation driver: the tracking switch is a member template of
// EncoderBase that the library itself never calls; a user does.
void c09_instantiate(const draco::Mesh &m) {
  draco::Encoder e;
  e.SetTrackEncodedProperties(true);
  draco::ExpertEncoder x(m);
  x.SetTrackEncodedProperties(true);
}

}  // namespace verif_control

// ---- OPTFREE control: a count function that re-derives an encoder decision from the options ----
#include "draco/compression/mesh/mesh_encoder.h"
namespace verif_control {
class c09_OptCounter : public draco::MeshEncoder {
 public:
  void c09_optfree_bad() {
    size_t n = mesh()->num_points();
    if (options()->GetGlobalBool("split_mesh_on_seams", false) || options()->GetSpeed() >= 6) n /= 2;
    set_num_encoded_points(n);
  }
};
}  // namespace verif_control
