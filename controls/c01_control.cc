// Positive control for C01/DROPPED(enc): an encoder stage whose failure is swallowed.
#include "draco/attributes/attribute_quantization_transform.h"
#include "draco/attributes/point_attribute.h"

namespace verif_control {

bool c01_dropped_bad(const draco::PointAttribute &att, int bits) {
  draco::AttributeQuantizationTransform t;
  t.ComputeParameters(att, bits);  // fails for bits outside 1..30; ignored
  return true;
}

}  // namespace verif_control
