// Positive control for C01/DROPPED(enc): an encoder stage whose failure is swallowed.
#include "draco/attributes/attribute_quantization_transform.h"
#include "draco/attributes/point_attribute.h"

namespace verif_control {

bool c01_dropped_bad(const draco::PointAttribute &att, int bits) {
  draco::AttributeQuantizationTransform t;
  t.ComputeParameters(att, bits);  // fails for bits outside 1..30; ignored
  return true;
}

}  // namespace verif_control

// ---- STUBREACH controls -----------------------------------------------------------------------------
// A policy without the value (dummy stub), a class template calling it, a factory keyed by a method id.
namespace verif_control {
struct stub_NoBits { int stub_dummy_value() const { return -1; } };
struct stub_HasBits { int bits; int stub_dummy_value_real() const { return bits; } };
struct stub_Iface { virtual ~stub_Iface() {} virtual int Run() = 0; };
template <class P> struct stub_User : stub_Iface {
  P p;
  int Run() override { return p.stub_dummy_value() + 1; }
};
struct stub_Plain : stub_Iface { int Run() override { return 0; } };
int stub_select(int kind) { return kind > 3 ? 6 : 1; }
// bad: the selector can return 6 and nothing excludes it before the factory
stub_Iface *stub_factory_bad(int method, int kind) {
  if (method == -2) method = stub_select(kind);
  if (method == 6) return new stub_User<stub_NoBits>();
  return new stub_Plain();
}
// good: the choke point resolves the default itself and maps 6 away before the factory sees it
stub_Iface *stub_factory_good(int method, int kind) {
  if (method == -2) method = stub_select(kind);
  if (method == 6) return new stub_User<stub_NoBits>();
  return new stub_Plain();
}
stub_Iface *stub_choke_good(int method, int kind) {
  if (method == -2) method = stub_select(kind);
  if (method == 6) method = 1;
  return stub_factory_good(method, kind);
}
int stub_entry_good(int m, int kind) { stub_Iface *s = stub_choke_good(m, kind); int r = s->Run(); delete s; return r; }
int stub_entry_bad(int m, int kind) { stub_Iface *s = stub_factory_bad(m, kind); int r = s->Run(); delete s; return r; }
}  // namespace verif_control

// ---- PREDSIG controls ---------------------------------------------------------------------------------
#include <cstdint>
#include <vector>
namespace verif_control {
struct ps_Transform {
  void ComputeCorrection(const int *orig, const int *pred, int *out) const { out[0] = orig[0] - pred[0]; }
  void ComputeOriginalValue(const int *pred, const int *corr, int *out) const { out[0] = pred[0] + corr[0]; }
};
void ps_Neighbour(int i, const int *data, int *out);
// bad pair: the encoder sums in 64 bits, the decoder in 32
struct ps_BadPredictionSchemeEncoder {
  ps_Transform t;
  bool ComputeCorrectionValues(const int *in, int *corr, int n) {
    std::vector<int> pred(1), nb(1);
    for (int i = n - 1; i > 0; --i) {
      int64_t sum = 0;
      for (int j = 0; j < 2; ++j) { ps_Neighbour(i - j, in, nb.data()); sum += nb[0]; }
      pred[0] = static_cast<int>(sum / 2);
      t.ComputeCorrection(in + i, pred.data(), corr + i);
    }
    return true;
  }
};
struct ps_BadPredictionSchemeDecoder {
  ps_Transform t;
  bool ComputeOriginalValues(const int *corr, int *out, int n) {
    std::vector<int> pred(1), nb(1);
    for (int i = 1; i < n; ++i) {
      pred[0] = 0;
      for (int j = 0; j < 2; ++j) { ps_Neighbour(i - j, out, nb.data()); pred[0] += nb[0]; }
      pred[0] /= 2;
      t.ComputeOriginalValue(pred.data(), corr + i, out + i);
    }
    return true;
  }
};
// good pair: same arithmetic, different structure (helper on one side, local accumulator on the other)
struct ps_GoodPredictionSchemeEncoder {
  ps_Transform t;
  int Average(const int *in, int i) const {
    int nb[1]; int acc = 0;
    for (int j = 0; j < 2; ++j) { ps_Neighbour(i - j, in, nb); acc += nb[0]; }
    return acc / 2;
  }
  bool ComputeCorrectionValues(const int *in, int *corr, int n) {
    for (int i = n - 1; i > 0; --i) {
      const int pred = Average(in, i);
      t.ComputeCorrection(in + i, &pred, corr + i);
    }
    return true;
  }
};
struct ps_GoodPredictionSchemeDecoder {
  ps_Transform t;
  bool ComputeOriginalValues(const int *corr, int *out, int n) {
    std::vector<int> pred(1), nb(1);
    for (int i = 1; i < n; ++i) {
      pred[0] = 0;
      for (int j = 0; j < 2; ++j) { ps_Neighbour(i - j, out, nb.data()); pred[0] += nb[0]; }
      pred[0] /= 2;
      t.ComputeOriginalValue(pred.data(), corr + i, out + i);
    }
    return true;
  }
};
}  // namespace verif_control

// ---- SIBLING-FAIL control: the encoder survives a helper failure the decoder does not ------------------
namespace verif_control {
bool ps_Predict(int i, const int *data, int *out);
struct ps_FailPredictionSchemeEncoder {
  ps_Transform t;
  bool ComputeCorrectionValues(const int *in, int *corr, int n) {
    int pred[1];
    for (int i = n - 1; i > 0; --i) {
      if (!ps_Predict(i, in, pred)) {
        t.ComputeCorrection(in + i, in + i - 1, corr + i);
        continue;
      }
      t.ComputeCorrection(in + i, pred, corr + i);
    }
    return true;
  }
};
struct ps_FailPredictionSchemeDecoder {
  ps_Transform t;
  bool ComputeOriginalValues(const int *corr, int *out, int n) {
    int pred[1];
    for (int i = 1; i < n; ++i) {
      if (!ps_Predict(i, out, pred)) return false;
      t.ComputeOriginalValue(pred, corr + i, out + i);
    }
    return true;
  }
};
}  // namespace verif_control
