// Positive control for C01/DROPPED(enc): an encoder stage whose failure is swallowed.
#include "draco/attributes/attribute_quantization_transform.h"
#include "draco/attributes/point_attribute.h"

namespace verif_control {

bool c01_dropped_bad(const draco::PointAttribute &att, int bits) {
  draco::AttributeQuantizationTransform t;
  t.ComputeParameters(att, bits);  // fails for bits outside 1..30; ignored
  return true;
}

}  // namespace verif_control

// ---- STUBREACH controls -----------------------------------------------------------------------------
// A policy without the value (dummy stub), a class template calling it, a factory keyed by a method id.
namespace verif_control {
struct stub_NoBits { int stub_dummy_value() const { return -1; } };
struct stub_HasBits { int bits; int stub_dummy_value_real() const { return bits; } };
struct stub_Iface { virtual ~stub_Iface() {} virtual int Run() = 0; };
template <class P> struct stub_User : stub_Iface {
  P p;
  int Run() override { return p.stub_dummy_value() + 1; }
};
struct stub_Plain : stub_Iface { int Run() override { return 0; } };
int stub_select(int kind) { return kind > 3 ? 6 : 1; }
// bad: the selector can return 6 and nothing excludes it before the factory
stub_Iface *stub_factory_bad(int method, int kind) {
  if (method == -2) method = stub_select(kind);
  if (method == 6) return new stub_User<stub_NoBits>();
  return new stub_Plain();
}
// good: the choke point resolves the default itself and maps 6 away before the factory sees it
stub_Iface *stub_factory_good(int method, int kind) {
  if (method == -2) method = stub_select(kind);
  if (method == 6) return new stub_User<stub_NoBits>();
  return new stub_Plain();
}
stub_Iface *stub_choke_good(int method, int kind) {
  if (method == -2) method = stub_select(kind);
  if (method == 6) method = 1;
  return stub_factory_good(method, kind);
}
int stub_entry_good(int m, int kind) { stub_Iface *s = stub_choke_good(m, kind); int r = s->Run(); delete s; return r; }
int stub_entry_bad(int m, int kind) { stub_Iface *s = stub_factory_bad(m, kind); int r = s->Run(); delete s; return r; }
}  // namespace verif_control
