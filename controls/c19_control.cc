// Positive controls for the whole-program absence rules (E2): NOGLOBAL (C19)
// and NONDET (C06).  Never reachable from a draco entry point.
#include <cstdint>
#include <cstdlib>
#include <ctime>
#include <unordered_map>
#include <vector>

namespace verif_control {

static std::vector<uint64_t> &c19_cache() {
  static std::vector<uint64_t> scratch;  // hidden shared mutable state
  return scratch;
}

int c19_entry(int n) {
  std::vector<uint64_t> &c = c19_cache();
  c.resize(n);
  return static_cast<int>(c.size());
}

int c06_clock_entry() { return static_cast<int>(time(nullptr) & 1); }

int c06_ptr_entry(const int *p) {
  return static_cast<int>(reinterpret_cast<uintptr_t>(p) % 7);  // pointer value as data
}

int c06_ptrkey_entry(const std::unordered_map<const int *, int> &m) {
  int first = 0;
  for (const auto &kv : m) {  // iteration order depends on addresses
    first = kv.second;
    break;
  }
  return first;
}

}  // namespace verif_control

// ---- RESET (C06) -----------------------------------------------------------
#include <memory>
#include <vector>
namespace verif_control {
struct ResetWorker { int state = 0; };
class c06_ResetRoot {
 public:
  virtual ~c06_ResetRoot() {}
  bool Run(int n) {
    items_.clear();
    if (!Prepare(n)) return false;
    for (int i = 0; i < n; ++i) items_.push_back(i);
    return true;
  }
 protected:
  virtual bool Prepare(int n) = 0;
  std::vector<int> items_;
};
// worker object kept when the same mode is selected again
class c06_ResetBad : public c06_ResetRoot {
 protected:
  bool Prepare(int n) override {
    if (n != mode_) worker_ = nullptr;
    mode_ = n;
    if (!worker_) worker_.reset(new ResetWorker());
    return worker_ != nullptr;
  }
  std::unique_ptr<ResetWorker> worker_;
  int mode_ = -1;
};
class c06_ResetOk : public c06_ResetRoot {
 protected:
  bool Prepare(int n) override {
    worker_ = nullptr;
    if (n > 3) {
      worker_.reset(new ResetWorker());
    } else {
      worker_ = std::unique_ptr<ResetWorker>(new ResetWorker());
    }
    return worker_ != nullptr;
  }
  std::unique_ptr<ResetWorker> worker_;
};
bool c06_reset_use(c06_ResetBad *a, c06_ResetOk *b) { return a->Run(1) && b->Run(2); }
}  // namespace verif_control

// ---- UNINIT (C06) ------------------------------------------------------------
#include <cstdlib>
namespace verif_control {
// partial filler: stops at the first item that does not parse
static bool c06_parse_some(const char *s, int n, float *out) {
  char *next;
  for (int i = 0; i < n; ++i) {
    const float v = std::strtof(s, &next);
    if (s == next) return true;
    s = next;
    out[i] = v;
  }
  return true;
}
float c06_uninit_bad(const char *s, int n) {
  std::unique_ptr<float[]> scratch(new float[n]);
  c06_parse_some(s, n, scratch.get());
  float sum = 0;
  for (int i = 0; i < n; ++i) sum += scratch[i];
  return sum;
}
float c06_uninit_ok(const float *src, int n) {
  const std::unique_ptr<float[]> scratch(new float[n]);
  for (int i = 0; i < n; ++i) scratch[i] = src[i] * 2;
  float sum = 0;
  for (int i = 0; i < n; ++i) sum += scratch[i];
  return sum;
}
}  // namespace verif_control

// ---- CALLERSTATE control: the stale version of the caller's buffer is read before it is set -----------
#include "draco/core/decoder_buffer.h"
namespace verif_control {
bool c06_callerstate_bad(draco::DecoderBuffer *buffer, uint16_t header_version) {
  if (buffer->bitstream_version() != 0 && buffer->bitstream_version() != header_version) {
    return false;
  }
  buffer->set_bitstream_version(header_version);
  return true;
}
}  // namespace verif_control
