// Positive controls for the whole-program absence rules (E2): NOGLOBAL (C19)
// and NONDET (C06).  Never reachable from a draco entry point.
#include <cstdint>
#include <cstdlib>
#include <ctime>
#include <unordered_map>
#include <vector>

namespace verif_control {

static std::vector<uint64_t> &c19_cache() {
  static std::vector<uint64_t> scratch;  // hidden shared mutable state
  return scratch;
}

int c19_entry(int n) {
  std::vector<uint64_t> &c = c19_cache();
  c.resize(n);
  return static_cast<int>(c.size());
}

int c06_clock_entry() { return static_cast<int>(time(nullptr) & 1); }

int c06_ptr_entry(const int *p) {
  return static_cast<int>(reinterpret_cast<uintptr_t>(p) % 7);  // pointer value as data
}

int c06_ptrkey_entry(const std::unordered_map<const int *, int> &m) {
  int first = 0;
  for (const auto &kv : m) {  // iteration order depends on addresses
    first = kv.second;
    break;
  }
  return first;
}

}  // namespace verif_control
