// Positive / negative controls for the C02 rules that are not taint rules.
#include <cstdint>
#include <cstdlib>
#include <cstring>

#include "draco/core/decoder_buffer.h"

namespace verif_control {

// ---- DROPPED(dec) ---------------------------------------------------------
bool dropped_dec_bad(draco::DecoderBuffer *b, uint32_t *out) {
  uint32_t v = 0;
  b->Decode(&v);  // result discarded
  *out = v;
  return true;
}

bool dropped_dec_ok(draco::DecoderBuffer *b, uint32_t *out) {
  uint32_t v = 0;
  if (!b->Decode(&v)) return false;
  *out = v;
  return true;
}

// ---- PRIMBOUND -------------------------------------------------------------
struct Window {
  const uint8_t *buf;
  int offset;
};

int prim_bad(Window *w) { return w->buf[--w->offset]; }

int prim_ok(Window *w) {
  if (w->offset > 0) return w->buf[--w->offset];
  return 0;
}

// ---- CONSTDROP ---------------------------------------------------------------
static int consume(const uint8_t *p, int n) { return n > 0 ? p[0] : 0; }

int constdrop_bad(draco::DecoderBuffer *b) {
  char *p = const_cast<char *>(b->data_head());
  if (b->remaining_size() > 0) p[0] = 0;  // writes the caller's input
  return 0;
}

int constdrop_ok(draco::DecoderBuffer *b) {
  return consume(reinterpret_cast<uint8_t *>(const_cast<char *>(b->data_head())),
                 static_cast<int>(b->remaining_size()));
}

// ---- NOABORT -----------------------------------------------------------------
static void noabort_helper(int level) {
  if (level > 6) abort();
}

bool noabort_entry(draco::DecoderBuffer *b) {
  uint8_t level;
  if (!b->Decode(&level)) return false;
  noabort_helper(level);
  return true;
}

}  // namespace verif_control

// ---- WIDENSHIFT control (C17) ----------------------------------------------------------
#include <cstdint>
namespace verif_control {
uint64_t c17_widenshift_bad(const uint8_t *bytes, int n) {
  uint64_t value = 0;
  int shift = 0;
  for (int i = 0; i < n; ++i) {
    value |= (bytes[i] & 0x7f) << shift;   // int shift, widened afterwards
    shift += 7;
  }
  return value;
}
}  // namespace verif_control

// ---- NESTBOUND control: the bound is on the pending-work stack, not on the nesting level ---------------
#include <vector>
namespace verif_control {
struct nest_Node { bool nest_attach(nest_Node *child); };
bool nest_read(unsigned *out);
bool nest_bad(nest_Node *root) {
  struct Item { nest_Node *parent; int level; };
  std::vector<Item> stack;
  stack.push_back({root, 0});
  while (!stack.empty()) {
    const Item it = stack.back();
    stack.pop_back();
    if (stack.size() > 1000) return false;      // a chain keeps the stack at size <= 1
    nest_Node *child = new nest_Node();
    if (!it.parent->nest_attach(child)) return false;
    unsigned n = 0;
    if (!nest_read(&n)) return false;
    for (unsigned i = 0; i < n; ++i) stack.push_back({child, it.level + 1});
  }
  return true;
}
}  // namespace verif_control

// ---- SIBLING-FP control: the decoder keeps the adaptive state in float, the encoder in double ---------
namespace verif_control {
struct fp_BitEncoder { double p; void Update(bool b) { p = p * 0.9 + (b ? 0.0 : 0.1); } };
struct fp_BitDecoder { float p; void Update(bool b) { p = p * 0.9f + (b ? 0.0f : 0.1f); } };
void fp_use(fp_BitEncoder *e, fp_BitDecoder *d) { e->Update(true); d->Update(true); }
}  // namespace verif_control

// ---- NARROW-LEDGER control (C08): symbol ids stored in a 16-bit look-up table --------------------------
namespace verif_control {
void c08_narrow_bad(std::vector<uint16_t> *lut, uint32_t num_symbols) {
  for (uint32_t i = 0; i < num_symbols; ++i) {
    const uint16_t entry = static_cast<uint16_t>(i);
    lut->push_back(entry);
  }
}
}  // namespace verif_control

// ---- SHIFT-LEDGER control (C17): bits gathered in a 32-bit temporary ---------------------------------
namespace verif_control {
void c17_wideshift_bad(uint8_t *dst, uint32_t data, int bit_shift, int nbits) {
  uint32_t bits = (*dst & ((1u << bit_shift) - 1)) | (data << bit_shift);
  for (int left = bit_shift + nbits; left > 0; left -= 8) { *dst++ = static_cast<uint8_t>(bits & 0xff); bits >>= 8; }
}
}  // namespace verif_control

// ---- PAIRSTATE control (C17) ---------------------------------------------------------------------------
namespace verif_control {
struct ps17_Buffer {
  long pos_ = 0; long seq_size_ = 0; bool bit_mode_ = false;
  bool StartBitDecoding(bool sized, long n) {
    if (sized) { if (n < 0) return false; seq_size_ = n; }
    bit_mode_ = true;
    return true;
  }
  void EndBitDecoding(long used) { bit_mode_ = false; pos_ += used > seq_size_ ? used : seq_size_; }
};
void ps17_use(ps17_Buffer *b) { b->StartBitDecoding(true, 3); b->EndBitDecoding(1); }
}  // namespace verif_control
