// Positive control for C10/PORTABLE-ID.
#include <memory>
#include "draco/attributes/point_attribute.h"

namespace verif_control {

std::unique_ptr<draco::PointAttribute> c10_creator_bad(const draco::PointAttribute &original) {
  draco::GeometryAttribute va;
  va.Init(original.attribute_type(), nullptr, original.num_components(), draco::DT_UINT32, false,
          original.num_components() * 4, 0);
  std::unique_ptr<draco::PointAttribute> port_att(new draco::PointAttribute(va));
  port_att->SetIdentityMapping();
  return port_att;  // unique id never copied
}

}  // namespace verif_control

// ---- CURSOR (C10, C01) ----------------------------------------------------------
#include <vector>
namespace verif_control {
// the per-float-attribute cursor stalls on the `continue` path
int c10_cursor_bad(const std::vector<int> &kinds, const std::vector<int> &side, bool skip) {
  int sum = 0;
  int k = 0;
  for (size_t i = 0; i < kinds.size(); ++i) {
    if (kinds[i] == 1) {
      const int v = side[k];
      if (skip) {
        sum += 1;
        continue;
      }
      sum += v;
      ++k;
    }
  }
  return sum;
}
int c10_cursor_ok(const std::vector<int> &kinds, const std::vector<int> &side, bool skip) {
  int sum = 0;
  int k = 0;
  for (size_t i = 0; i < kinds.size(); ++i) {
    if (kinds[i] == 1) {
      const int v = side[k];
      k++;
      if (skip) {
        sum += 1;
        continue;
      }
      sum += v;
    }
  }
  return sum;
}
}  // namespace verif_control

// ---- ONEROUND control (C12): a second rounding rule on a "fast path" ---------------------------------
#include <cmath>
namespace verif_control {
void c12_round_bad(const float *src, float inv_delta, int *dst, int n) {
  for (int i = 0; i < n; ++i) dst[i] = static_cast<int>(std::lrintf(src[i] * inv_delta));
}
}  // namespace verif_control
