// Positive control for C10/PORTABLE-ID.
#include <memory>
#include "draco/attributes/point_attribute.h"

namespace verif_control {

std::unique_ptr<draco::PointAttribute> c10_creator_bad(const draco::PointAttribute &original) {
  draco::GeometryAttribute va;
  va.Init(original.attribute_type(), nullptr, original.num_components(), draco::DT_UINT32, false,
          original.num_components() * 4, 0);
  std::unique_ptr<draco::PointAttribute> port_att(new draco::PointAttribute(va));
  port_att->SetIdentityMapping();
  return port_att;  // unique id never copied
}

}  // namespace verif_control
