// Positive control for C10/PORTABLE-ID.
#include <memory>
#include "draco/attributes/point_attribute.h"

namespace verif_control {

std::unique_ptr<draco::PointAttribute> c10_creator_bad(const draco::PointAttribute &original) {
  draco::GeometryAttribute va;
  va.Init(original.attribute_type(), nullptr, original.num_components(), draco::DT_UINT32, false,
          original.num_components() * 4, 0);
  std::unique_ptr<draco::PointAttribute> port_att(new draco::PointAttribute(va));
  port_att->SetIdentityMapping();
  return port_att;  // unique id never copied
}

}  // namespace verif_control

// ---- CURSOR (C10, C01) ----------------------------------------------------------
#include <vector>
namespace verif_control {
// the per-float-attribute cursor stalls on the `continue` path
int c10_cursor_bad(const std::vector<int> &kinds, const std::vector<int> &side, bool skip) {
  int sum = 0;
  int k = 0;
  for (size_t i = 0; i < kinds.size(); ++i) {
    if (kinds[i] == 1) {
      const int v = side[k];
      if (skip) {
        sum += 1;
        continue;
      }
      sum += v;
      ++k;
    }
  }
  return sum;
}
int c10_cursor_ok(const std::vector<int> &kinds, const std::vector<int> &side, bool skip) {
  int sum = 0;
  int k = 0;
  for (size_t i = 0; i < kinds.size(); ++i) {
    if (kinds[i] == 1) {
      const int v = side[k];
      k++;
      if (skip) {
        sum += 1;
        continue;
      }
      sum += v;
    }
  }
  return sum;
}
}  // namespace verif_control

// ---- ONEROUND control (C12): a second rounding rule on a "fast path" ---------------------------------
#include <cmath>
namespace verif_control {
void c12_round_bad(const float *src, float inv_delta, int *dst, int n) {
  for (int i = 0; i < n; ++i) dst[i] = static_cast<int>(std::lrintf(src[i] * inv_delta));
}
}  // namespace verif_control

// ---- FRESHBUF control (C12): scratch buffer of a partial writer hoisted out of the loop -----------------
#include <vector>
namespace verif_control {
bool c12_partial_fill(int id, int n, float *out);
void c12_use(const float *);
void c12_fresh_bad(int num_atts, int width) {
  std::vector<float> origin(width, 0.f);
  for (int i = 0; i < num_atts; ++i) {
    c12_partial_fill(i, width, origin.data());
    c12_use(origin.data());
  }
}
}  // namespace verif_control

// ---- KEYTYPE control (C20/C12): an attribute *type* used as key of options keyed by attribute *id* ------
#include "draco/compression/config/encoder_options.h"
namespace verif_control {
int c20_keytype_bad(const draco::EncoderOptions &options) {
  return options.GetAttributeInt(draco::GeometryAttribute::GENERIC, "quantization_bits", -1);
}
int c20_keytype_bad2(const draco::EncoderOptions &options, draco::GeometryAttribute::Type t) {
  return options.GetAttributeInt(t, "quantization_bits", -1);
}
}  // namespace verif_control
