// Positive and negative controls for the TAINT/GUARD rules.  Every function
// whose name ends in _bad contains exactly one deliberate violation that the
// named rule must report; every _ok function is an accepted idiom that must
// be discharged.  Never linked into anything.
#include <cstdint>
#include <memory>
#include <vector>

#include "draco/attributes/geometry_attribute.h"
#include "draco/core/decoder_buffer.h"
#include "draco/core/varint_decoding.h"
#include "draco/mesh/mesh.h"

namespace verif_control {

// ---- ALLOCGUARD ---------------------------------------------------------
bool alloc_bad(draco::DecoderBuffer *b, std::vector<int> *v) {
  uint32_t n;
  if (!b->Decode(&n)) return false;
  v->resize(n);
  return true;
}

bool alloc_ok(draco::DecoderBuffer *b, std::vector<int> *v) {
  uint32_t n;
  if (!draco::DecodeVarint(&n, b)) return false;
  if (n > b->remaining_size()) return false;
  v->resize(n);
  return true;
}

// a large constant is not a bound
bool alloc_bigconst_bad(draco::DecoderBuffer *b, std::vector<int> *v) {
  uint32_t n;
  if (!b->Decode(&n)) return false;
  if (n > 0xffffffff / 3) return false;
  v->resize(n);
  return true;
}

// lower bounds are not bounds
bool alloc_lower_bad(draco::DecoderBuffer *b, std::vector<int> *v) {
  int32_t n;
  if (!b->Decode(&n)) return false;
  if (n < 0) return false;
  v->resize(n);
  return true;
}

static void helper_resize(std::vector<int> *v, uint32_t n) { v->resize(n); }

// sink reached through a parameter (needs the callee summary)
bool alloc_summary_bad(draco::DecoderBuffer *b, std::vector<int> *v) {
  uint32_t n;
  if (!draco::DecodeVarint(&n, b)) return false;
  helper_resize(v, n);
  return true;
}

static bool validate_count(uint32_t n, draco::DecoderBuffer *b) {
  if (n > b->remaining_size()) return false;
  return true;
}

// guard hoisted into a validation helper (equivalent edit E3)
bool alloc_helper_ok(draco::DecoderBuffer *b, std::vector<int> *v) {
  uint32_t n;
  if (!b->Decode(&n)) return false;
  if (!validate_count(n, b)) return false;
  v->resize(n);
  return true;
}

bool alloc_new_bad(draco::DecoderBuffer *b, std::unique_ptr<int[]> *out) {
  uint32_t n;
  if (!b->Decode(&n)) return false;
  out->reset(new int[n]);
  return true;
}

// ---- LOOPGROW -----------------------------------------------------------
bool loop_bad(draco::DecoderBuffer *b, std::vector<int> *v) {
  uint32_t n;
  if (!b->Decode(&n)) return false;
  for (uint32_t i = 0; i < n; ++i) v->push_back(0);
  return true;
}

bool loop_ok(draco::DecoderBuffer *b, std::vector<int> *v) {
  uint32_t n;
  if (!b->Decode(&n)) return false;
  uint32_t i = 0;
  while (i < n) {
    int x;
    if (!b->Decode(&x)) return false;
    v->push_back(x);
    ++i;
  }
  return true;
}

// ---- ENUMCAST -----------------------------------------------------------
bool enum_bad(draco::DecoderBuffer *b, draco::GeometryAttribute::Type *t) {
  uint32_t v;
  if (!b->Decode(&v)) return false;
  *t = static_cast<draco::GeometryAttribute::Type>(v);
  return true;
}

bool enum_ok(draco::DecoderBuffer *b, draco::GeometryAttribute::Type *t) {
  uint32_t v;
  if (!b->Decode(&v)) return false;
  if (v >= draco::GeometryAttribute::NAMED_ATTRIBUTES_COUNT) return false;
  *t = static_cast<draco::GeometryAttribute::Type>(v);
  return true;
}

// ---- SUBSCRIPT ----------------------------------------------------------
bool subscript_bad(draco::DecoderBuffer *b, std::vector<int> *v, int *out) {
  uint32_t i;
  if (!b->Decode(&i)) return false;
  *out = (*v)[i];
  return true;
}

bool subscript_ok(draco::DecoderBuffer *b, std::vector<int> *v, int *out) {
  uint32_t i;
  if (!b->Decode(&i)) return false;
  if (i >= v->size()) return false;
  *out = (*v)[i];
  return true;
}

// ---- RAWWIN -------------------------------------------------------------
bool rawwin_bad(draco::DecoderBuffer *b) {
  uint32_t n;
  if (!b->Decode(&n)) return false;
  b->Advance(n);
  return true;
}

bool rawwin_ok(draco::DecoderBuffer *b) {
  uint32_t n;
  if (!b->Decode(&n)) return false;
  if (n > b->remaining_size()) return false;
  b->Advance(n);
  return true;
}

// ---- FACEIDX ------------------------------------------------------------
bool face_bad(draco::DecoderBuffer *b, draco::Mesh *m, uint32_t num_points) {
  draco::Mesh::Face face;
  for (int c = 0; c < 3; ++c) {
    uint32_t v;
    if (!b->Decode(&v)) return false;
    face[c] = v;
  }
  m->AddFace(face);
  m->set_num_points(num_points);
  return true;
}

// the bound `num_points - 1` wraps for num_points == 0: the comparison rejects nothing
bool face_wrap_bad(draco::DecoderBuffer *b, draco::Mesh *m, uint32_t num_points) {
  const uint8_t max_index = static_cast<uint8_t>(num_points - 1);
  draco::Mesh::Face face;
  for (int c = 0; c < 3; ++c) {
    uint8_t v;
    if (!b->Decode(&v)) return false;
    if (v > max_index) return false;
    face[c] = v;
  }
  m->AddFace(face);
  return true;
}

bool face_ok(draco::DecoderBuffer *b, draco::Mesh *m, uint32_t num_points) {
  draco::Mesh::Face face;
  for (int c = 0; c < 3; ++c) {
    uint32_t v;
    if (!b->Decode(&v)) return false;
    if (v >= num_points) return false;
    face[c] = v;
  }
  m->AddFace(face);
  m->set_num_points(num_points);
  return true;
}

}  // namespace verif_control

// ---- MAPENTRY (C03) -----------------------------------------------------
#include "draco/attributes/point_attribute.h"
namespace verif_control {

bool mapentry_bad(draco::PointAttribute *att, const std::vector<uint32_t> &ids,
                  uint32_t n) {
  att->SetExplicitMapping(n);
  for (uint32_t i = 0; i < ids.size(); ++i) {
    att->SetPointMapEntry(draco::PointIndex(ids[i]),
                          draco::AttributeValueIndex(i));
  }
  return true;
}

bool mapentry_ok(draco::PointAttribute *att, const std::vector<uint32_t> &ids,
                 uint32_t n) {
  att->SetExplicitMapping(n);
  for (uint32_t i = 0; i < ids.size(); ++i) {
    const draco::PointIndex p(ids[i]);
    const draco::AttributeValueIndex e(i);
    if (p >= n || e.value() >= n) return false;
    att->SetPointMapEntry(p, e);
  }
  return true;
}

}  // namespace verif_control

// ---- LOOPBOUND (C02: finitely many steps) ---------------------------------
namespace verif_control {
bool loopiter_bad(draco::DecoderBuffer *b, uint32_t *acc) {
  int32_t n = 0;
  if (!b->Decode(&n) || n < 0) return false;
  for (int i = 0; i < n; ++i) *acc += i;  // 2^31 iterations from 4 bytes
  return true;
}
}  // namespace verif_control

// a guard whose stream-derived side can wrap around is not a bound
namespace verif_control {
bool alloc_wrap_bad(draco::DecoderBuffer *b, std::vector<int> *v) {
  uint32_t n;
  if (!b->Decode(&n)) return false;
  if (5 * n > b->remaining_size()) return false;  // 5*n wraps in 32 bits
  v->resize(n);
  return true;
}
bool alloc_wide_ok(draco::DecoderBuffer *b, std::vector<int> *v) {
  uint32_t n;
  if (!b->Decode(&n)) return false;
  if (5 * static_cast<uint64_t>(n) > static_cast<uint64_t>(b->remaining_size())) return false;
  v->resize(n);
  return true;
}
}  // namespace verif_control

// ---- G1JUSTIFY control: a count guard that assumes 4 bytes per item in
// front of a loop whose items take 2 bytes ---------------------------------
namespace verif_control {
bool g1_unjustified_bad(draco::DecoderBuffer *b, uint32_t *sum) {
  uint32_t n;
  if (!draco::DecodeVarint(&n, b)) return false;
  if (n > b->remaining_size() / 4) return false;
  for (uint32_t i = 0; i < n; ++i) {
    uint16_t v;
    if (!b->Decode(&v)) return false;
    *sum += v;
  }
  return true;
}
}  // namespace verif_control

// ---- WRITELEN (C02) --------------------------------------------------------
namespace verif_control {
bool writelen_bad(draco::DecoderBuffer *b, int32_t *slots, size_t num_values) {
  uint8_t num_bytes;
  if (!b->Decode(&num_bytes)) return false;
  if (b->remaining_size() < static_cast<int64_t>(num_bytes) * static_cast<int64_t>(num_values)) return false;
  for (size_t i = 0; i < num_values; ++i) {
    if (!b->Decode(slots + i, num_bytes)) return false;  // up to 255 bytes into a 4-byte slot
  }
  return true;
}
bool writelen_ok(draco::DecoderBuffer *b, int32_t *slots, size_t num_values) {
  uint8_t num_bytes;
  if (!b->Decode(&num_bytes)) return false;
  if (num_bytes > sizeof(int32_t)) return false;
  for (size_t i = 0; i < num_values; ++i) {
    if (!b->Decode(slots + i, num_bytes)) return false;
  }
  return true;
}
}  // namespace verif_control

// ---- CLAIMONCE (C03) --------------------------------------------------------
namespace verif_control {
struct Claim {
  int owner = -1;
  int other = -1;
  int payload = 0;
};
void claim_register(int id, int *data);
bool claim_ok(Claim *c, int id) {
  if (c->owner >= 0) return false;
  c->owner = id;
  return true;
}
bool claim_ptr_ok(Claim *c, int id, bool first) {
  int *slot = first ? &c->owner : &c->other;
  if (*slot != -1) return false;
  *slot = id;
  return true;
}
// `> 0` lets a second claimant take over from owner 0
bool claim_weak_bad(Claim *c, int id) {
  if (c->owner > 0) return false;
  c->owner = id;
  return true;
}
bool claim_missing_bad(Claim *c, int id) {
  c->owner = id;
  return true;
}
// the data is handed to a new decoder and nobody records (or checks) who owns it
bool claim_data_unowned_bad(Claim *c, int id) {
  claim_register(id, &c->payload);
  return true;
}
bool claim_data_ok(Claim *c, int id) {
  if (c->owner >= 0) return false;
  c->owner = id;
  claim_register(id, &c->payload);
  return true;
}
}  // namespace verif_control

// ---- REJECT-LEDGER control: a constant cap that is not in the ledger --------------------------------
namespace verif_control {
bool reject_new_bad(draco::DecoderBuffer *b, uint32_t *out) {
  uint32_t n;
  if (!draco::DecodeVarint(&n, b)) return false;
  if (n > 777) return false;
  *out = n;
  return true;
}
}  // namespace verif_control

// ---- ALLOCGUARD: an unsigned count compared through a signed view ---------------------------
namespace verif_control {
bool alloc_signed_view_bad(draco::DecoderBuffer *b, std::vector<int> *v, int num_corners) {
  uint32_t n;
  if (!draco::DecodeVarint(&n, b)) return false;
  if (static_cast<int>(n) > num_corners) return false;   // 0x80000000.. is negative and passes
  v->resize(n);
  return true;
}
}  // namespace verif_control

// ---- UNIQUEID control ---------------------------------------------------------------------------
#include "draco/point_cloud/point_cloud.h"
namespace verif_control {
bool uniqueid_bad(draco::DecoderBuffer *b, draco::PointCloud *pc) {
  uint32_t unique_id;
  if (!draco::DecodeVarint(&unique_id, b)) return false;
  draco::GeometryAttribute ga;
  ga.set_unique_id(unique_id);
  pc->AddAttribute(std::unique_ptr<draco::PointAttribute>(new draco::PointAttribute(ga)));
  return true;   // AddAttribute has replaced the id by the attribute index
}
}  // namespace verif_control

// ---- IDENTITY-SIZE control ---------------------------------------------------------------------------
#include "draco/attributes/point_attribute.h"
namespace verif_control {
bool idsize_bad(draco::DecoderBuffer *b, draco::PointCloud *pc) {
  uint32_t num_points;
  if (!b->Decode(&num_points)) return false;
  draco::PointAttribute *att = pc->attribute(0);
  att->Reset(num_points);            // never compared with pc->num_points()
  att->SetIdentityMapping();
  return true;
}
}  // namespace verif_control
