// Positive controls for C11 (DROPPED inside the metadata encoder, NARROWLEN).
#include <string>
#include "draco/core/encoder_buffer.h"
#include "draco/metadata/metadata_encoder.h"

namespace verif_control {

bool c11_dropped_bad(draco::EncoderBuffer *out, const draco::Metadata *m) {
  draco::MetadataEncoder enc;
  enc.EncodeMetadata(out, m);  // failure swallowed
  return true;
}

bool c11_narrow_bad(draco::EncoderBuffer *out, const std::string &str) {
  out->Encode(static_cast<uint8_t>(str.size()));  // no range check
  out->Encode(str.c_str(), str.size());
  return true;
}

}  // namespace verif_control
