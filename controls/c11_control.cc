// Positive controls for C11 (DROPPED inside the metadata encoder, NARROWLEN).
#include <string>
#include "draco/core/encoder_buffer.h"
#include "draco/metadata/metadata_encoder.h"

namespace verif_control {

bool c11_dropped_bad(draco::EncoderBuffer *out, const draco::Metadata *m) {
  draco::MetadataEncoder enc;
  enc.EncodeMetadata(out, m);  // failure swallowed
  return true;
}

bool c11_narrow_bad(draco::EncoderBuffer *out, const std::string &str) {
  out->Encode(static_cast<uint8_t>(str.size()));  // no range check
  out->Encode(str.c_str(), str.size());
  return true;
}

}  // namespace verif_control

// ---- WIRESIG controls ------------------------------------------------------------
#include "draco/core/decoder_buffer.h"
#include "draco/core/encoder_buffer.h"
#include "draco/core/varint_decoding.h"
#include "draco/core/varint_encoding.h"
namespace verif_control {
// writer emits a varint length, reader takes one byte
bool ws_bad_write(draco::EncoderBuffer *b, const std::string &s) {
  draco::EncodeVarint(static_cast<uint32_t>(s.size()), b);
  b->Encode(s.data(), s.size());
  return true;
}
bool ws_bad_read(draco::DecoderBuffer *b, std::string *s) {
  uint8_t n;
  if (!b->Decode(&n)) return false;
  s->resize(n);
  if (n == 0) return true;
  return b->Decode(&(*s)[0], n);
}
// same record, different control flow
bool ws_ok_write(draco::EncoderBuffer *b, const std::string &s) {
  if (s.empty()) {
    b->Encode(static_cast<uint8_t>(0));
    return true;
  }
  b->Encode(static_cast<uint8_t>(s.size()));
  b->Encode(s.data(), s.size());
  return true;
}
bool ws_ok_read(draco::DecoderBuffer *b, std::string *s) {
  uint8_t n;
  if (!b->Decode(&n)) return false;
  s->resize(n);
  if (n == 0) return true;
  return b->Decode(&(*s)[0], n);
}
}  // namespace verif_control

// ---- PRESENCE control: the flag is set under a narrower condition than the block is written ------------
namespace verif_control {
struct presence_Src { const int *ps_has_block() const; int n() const; };
void presence_write_block(const int *);
int presence_setter_bad(const presence_Src &s) {
  int flags = 0;
  const int *blk = s.ps_has_block();
  if (blk != nullptr && s.n() > 0) {
    flags |= 0x8000;
  }
  return flags;
}
bool presence_writer_ok(const presence_Src &s) {
  if (!s.ps_has_block()) return true;
  presence_write_block(s.ps_has_block());
  return true;
}
}  // namespace verif_control
