#!/bin/sh
# usage: tools/mkseedbatch.sh <prefix> <id>...  -> /tmp/seed/<prefix>-<id>, each configured and built like /repo/_build
prefix="$1"; shift
for id in "$@"; do /verif/tools/mkseedwt.sh "$prefix-$id" >/dev/null; done
printf '%s\n' "$@" | xargs -P 3 -I{} sh -c "cd /tmp/seed/$prefix-{} && cmake -S . -B _build -G Ninja -DCMAKE_BUILD_TYPE=RelWithDebInfo -DDRACO_TESTS=ON >/dev/null 2>&1 && cmake --build _build -j6 >/dev/null 2>&1 && echo built {}"
