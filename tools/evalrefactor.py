#!/usr/bin/env python3
"""Store and evaluate a behaviour-preserving change set produced by an independent sub-agent.
usage: tools/evalrefactor.py <worktree> <id>     (or --rerun [id-prefix...] to re-evaluate stored ones)
Confirms build + pinned suite in the worktree, stores patch.diff/notes.md/meta.json under
/verif/refactors/<id>/, then runs every claimed property's quick check on a scratch copy of /repo with
the patch applied: every check must exit 0."""
import json, os, re, shutil, subprocess, sys, tempfile, time
V = os.path.dirname(os.path.dirname(os.path.abspath(__file__)))
sys.path.insert(0, V)
from verif import selftest


def sh(cmd, cwd=None):
    r = subprocess.run(cmd, shell=True, cwd=cwd, stdout=subprocess.PIPE, stderr=subprocess.STDOUT, text=True)
    return r.returncode, r.stdout


def evaluate(rid):
    d = os.path.join(V, "refactors", rid)
    meta = json.load(open(os.path.join(d, "meta.json")))
    tmp = tempfile.mkdtemp(prefix="verif-rf-")
    res = {}
    try:
        root = os.path.join(tmp, "repo")
        selftest.make_copy(root)
        rc, o = sh("patch -p1 -s < %s" % os.path.join(d, "patch.diff"), cwd=root)
        if rc != 0:
            print(rid, "PATCH DOES NOT APPLY", o[-300:])
            return
        env = "VERIF_REPO=%s VERIF_EVIDENCE_DIR=%s VERIF_CACHE_DIR=%s " % (root, os.path.join(tmp, "ev"), os.path.join(tmp, "cache"))
        man = json.load(open(os.path.join(V, "MANIFEST.json")))
        for c in man["checks"]:
            t0 = time.time()
            rc, o = sh(env + c["quick_cmd"], cwd=V)
            res[c["property_id"]] = {"exit": rc, "wall_s": round(time.time() - t0, 1),
                                     "lines": [l.strip()[:500] for l in o.splitlines()
                                               if l.strip().startswith("violation:") or "ANALYSIS-BROKEN" in l][:8]}
    finally:
        shutil.rmtree(tmp, ignore_errors=True)
    meta["checks"] = res
    meta["alarms"] = sorted(k for k, v in res.items() if v["exit"] == 1)
    meta["broken"] = sorted(k for k, v in res.items() if v["exit"] == 2)
    json.dump(meta, open(os.path.join(d, "meta.json"), "w"), indent=1)
    print("%-28s alarms=%s broken=%s" % (rid, meta["alarms"], meta["broken"]))
    for k in meta["alarms"] + meta["broken"]:
        for l in res[k]["lines"]:
            print("    [%s] %s" % (k, l[:400]))


if sys.argv[1] == "--rerun":
    ids = sorted(x for x in os.listdir(os.path.join(V, "refactors"))
                 if not sys.argv[2:] or any(x.startswith(p) for p in sys.argv[2:]))
    from concurrent.futures import ThreadPoolExecutor
    with ThreadPoolExecutor(int(os.environ.get("VERIF_JOBS", "3"))) as ex:
        list(ex.map(evaluate, ids))
    sys.exit(0)
wt, rid = sys.argv[1], sys.argv[2]
out = os.path.join(V, "refactors", rid)
os.makedirs(out, exist_ok=True)
rc, diff = sh("git -C %s diff -- src" % wt)
open(os.path.join(out, "patch.diff"), "w").write(diff)
meta = {"id": rid, "files_changed": re.findall(r"^\+\+\+ b/(.*)$", diff, re.M)}
rc, o = sh("cmake --build %s/_build -j16 2>&1 | tail -2" % wt)
meta["builds"] = rc == 0
rc, o = sh("./draco_tests 2>&1 | tail -8", cwd=wt + "/_build")
m = re.search(r"\[  PASSED  \] (\d+) tests", o)
failed = sorted(x for x in set(re.findall(r"\[  FAILED  \] (\S+)", o)) if not x.isdigit())
rc2, o2 = sh("./draco_factory_tests 2>&1 | tail -3", cwd=wt + "/_build")
m2 = re.search(r"\[  PASSED  \] (\d+) tests", o2)
meta["suite_ok"] = bool(m and int(m.group(1)) == 183 and m2 and int(m2.group(1)) == 4 and
                        set(failed) <= {"ObjDecoderTest.TestObjDecodingAll", "ObjEncoderTest.TestObjEncodingAll"})
n = os.path.join(wt, "seed_out", "notes.md")
if os.path.exists(n):
    shutil.copy(n, os.path.join(out, "notes.md"))
json.dump(meta, open(os.path.join(out, "meta.json"), "w"), indent=1)
print("builds", meta["builds"], "suite_ok", meta["suite_ok"], "files", len(meta["files_changed"]))
evaluate(rid)
