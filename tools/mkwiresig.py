#!/usr/bin/env python3
"""Prints the WIRESIG comparison of every pair on /repo's current tree and, with --freeze,
rewrites the frozen reader signatures (rules/wiresig.json "ledger") - to be run only after
the records were reviewed by reading."""
import json, os, sys
V = os.path.dirname(os.path.dirname(os.path.abspath(__file__)))
sys.path.insert(0, V)
from verif.check import Ctx
from verif.wiresig import WireSig, compare, reader_signatures
from verif.core import load_table
ctx = Ctx("quick")
tab = load_table("wiresig.json")
led = load_table("format_ledger.json")["constants"]
cur = (led["draco::kDracoPointCloudBitstreamVersionMajor"] << 8) | led["draco::kDracoPointCloudBitstreamVersionMinor"]
ws = WireSig(ctx.F, tab, cur)
ledger = {}
for p in tab["pairs"]:
    if p.get("writer") is None:
        ledger[p["id"]] = reader_signatures(ctx.F, tab, p)
        print("%-18s reader only: %s" % (p["id"], {k: len(v) for k, v in ledger[p["id"]].items()}))
        continue
    ok, mode, det = compare(ws, p)
    print("%-18s %-6s %s  W%d/R%d paths %s" % (p["id"], mode, "ok" if ok else "DIFF" if ok is not None else "MISSING",
                                             det["writer_paths"], det["reader_paths"],
                                             "" if ok else (det.get("writer_only"), det.get("reader_only"))))
    ledger[p["id"]] = reader_signatures(ctx.F, tab, p)
if "--freeze" in sys.argv:
    tab["ledger"] = ledger
    json.dump(tab, open(os.path.join(V, "rules", "wiresig.json"), "w"), indent=1)
    print("ledger frozen:", sum(len(x) for v in ledger.values() for x in v.values()), "sequences")
