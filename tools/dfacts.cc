// dfacts: generic AST + CFG fact extractor (libTooling, clang 14).
//
// Knows nothing about draco. For every function definition (including
// template instantiations and lambda call operators) whose definition lies
// under one of the --root prefixes it writes one JSON line with the CFG
// (blocks, labelled successor edges, terminator conditions) and, per block,
// the root statements as resolved expression trees (callee declarations,
// evaluated constants, cast kinds, how a call's result is consumed).
// Also: one line per class (bases, fields, virtual methods + overridden
// methods), per enum (evaluated enumerators) and per static-storage variable.
//
// Usage: dfacts -p <builddir> --out <file.jsonl> --root <prefix> ... <sources>
#include "clang/AST/ASTConsumer.h"
#include "clang/AST/ASTContext.h"
#include "clang/AST/Mangle.h"
#include "clang/AST/ParentMap.h"
#include "clang/AST/RecursiveASTVisitor.h"
#include "clang/Analysis/CFG.h"
#include "clang/Frontend/CompilerInstance.h"
#include "clang/Frontend/FrontendAction.h"
#include "clang/Lex/Lexer.h"
#include "clang/Tooling/CommonOptionsParser.h"
#include "clang/Tooling/Tooling.h"
#include "llvm/Support/CommandLine.h"
#include "llvm/Support/JSON.h"
#include "llvm/Support/raw_ostream.h"

#include <map>
#include <memory>
#include <set>
#include <string>
#include <vector>

using namespace clang;
using namespace clang::tooling;
namespace json = llvm::json;

static llvm::cl::OptionCategory Cat("dfacts options");
static llvm::cl::opt<std::string> OutFile("out", llvm::cl::desc("output jsonl"),
                                          llvm::cl::Required,
                                          llvm::cl::cat(Cat));
static llvm::cl::list<std::string> Roots("root",
                                         llvm::cl::desc("source root prefix"),
                                         llvm::cl::cat(Cat));

static std::unique_ptr<llvm::raw_fd_ostream> Out;
static std::set<std::string> SeenFn, SeenCls, SeenEnum, SeenVar;
static unsigned NumUnits = 0, NumFns = 0, NumInst = 0, NumCfgFail = 0;

namespace {

struct Ctx {
  ASTContext &AC;
  SourceManager &SM;
  PrintingPolicy PP;
  std::unique_ptr<MangleContext> MC;
  Ctx(ASTContext &A)
      : AC(A), SM(A.getSourceManager()), PP(A.getLangOpts()),
        MC(A.createMangleContext()) {
    PP.SuppressTagKeyword = true;
    PP.Bool = true;
    PP.PrintCanonicalTypes = true;
    PP.SuppressUnwrittenScope = false;
    PP.FullyQualifiedName = true;
  }

  std::string fileOf(SourceLocation L) {
    if (L.isInvalid()) return "";
    return SM.getFilename(SM.getExpansionLoc(L)).str();
  }
  bool inRoots(SourceLocation L) {
    std::string F = fileOf(L);
    if (F.empty()) return false;
    for (auto &R : Roots)
      if (F.compare(0, R.size(), R) == 0) return true;
    return false;
  }
  std::string locStr(SourceLocation L) {
    if (L.isInvalid()) return "";
    PresumedLoc P = SM.getPresumedLoc(SM.getExpansionLoc(L));
    if (P.isInvalid()) return "";
    return std::string(P.getFilename()) + ":" + std::to_string(P.getLine()) +
           ":" + std::to_string(P.getColumn());
  }
  std::string lcStr(SourceLocation L) {
    if (L.isInvalid()) return "";
    PresumedLoc P = SM.getPresumedLoc(SM.getExpansionLoc(L));
    if (P.isInvalid()) return "";
    return std::to_string(P.getLine()) + ":" + std::to_string(P.getColumn());
  }
  std::string typeStr(QualType T) {
    if (T.isNull()) return "";
    return T.getCanonicalType().getAsString(PP);
  }
  std::string declName(const NamedDecl *D) {
    std::string S;
    llvm::raw_string_ostream OS(S);
    D->getNameForDiagnostic(OS, PP, true);
    return OS.str();
  }
  std::string mangled(const FunctionDecl *FD) {
    if (!FD) return "";
    if (FD->isDependentContext()) return "";
    if (FD->getType().isNull() || FD->getType()->isDependentType()) return "";
    if (auto *RT = FD->getReturnType().getTypePtrOrNull())
      if (RT->isUndeducedType()) return "";
    if (!MC->shouldMangleDeclName(FD)) return FD->getNameAsString();
    std::string S;
    llvm::raw_string_ostream OS(S);
    GlobalDecl GD;
    if (auto *C = dyn_cast<CXXConstructorDecl>(FD))
      GD = GlobalDecl(C, Ctor_Complete);
    else if (auto *D = dyn_cast<CXXDestructorDecl>(FD))
      GD = GlobalDecl(D, Dtor_Complete);
    else
      GD = GlobalDecl(FD);
    MC->mangleName(GD, OS);
    return OS.str();
  }
  std::string srcText(const Stmt *S, unsigned Max = 200) {
    if (!S) return "";
    SourceLocation B = SM.getExpansionLoc(S->getBeginLoc());
    SourceLocation E = SM.getExpansionLoc(S->getEndLoc());
    if (B.isInvalid() || E.isInvalid()) return "";
    CharSourceRange R = CharSourceRange::getTokenRange(B, E);
    std::string T = Lexer::getSourceText(R, SM, AC.getLangOpts()).str();
    std::string O;
    bool Sp = false;
    for (char c : T) {
      if (c == '\n' || c == '\t' || c == ' ' || c == '\r') {
        if (!Sp) O.push_back(' ');
        Sp = true;
      } else {
        O.push_back(c);
        Sp = false;
      }
      if (O.size() >= Max) {
        O += "...";
        break;
      }
    }
    return O;
  }
};

struct FnEmitter {
  Ctx &C;
  const FunctionDecl *FD;
  std::unique_ptr<ParentMap> PM;
  std::map<const Stmt *, int> StmtBlock;  // stmt -> block id where it's an element
  std::map<const Stmt *, int> StmtId;
  std::map<const Decl *, int> DeclId;
  std::set<const Stmt *> CtorInits;
  int NextId = 0, NextDecl = 0;

  FnEmitter(Ctx &C, const FunctionDecl *FD) : C(C), FD(FD) {}

  int sid(const Stmt *S) {
    auto It = StmtId.find(S);
    if (It != StmtId.end()) return It->second;
    return StmtId[S] = NextId++;
  }
  int did(const Decl *D) {
    D = D->getCanonicalDecl();
    auto It = DeclId.find(D);
    if (It != DeclId.end()) return It->second;
    return DeclId[D] = NextDecl++;
  }

  void addType(json::Object &O, QualType T, const char *Key = "t") {
    if (T.isNull()) return;
    O[Key] = C.typeStr(T);
    QualType CT = T.getCanonicalType().getNonReferenceType();
    if (CT->isIntegralOrEnumerationType() && !CT->isDependentType() &&
        !CT->isIncompleteType()) {
      O["iw"] = (int64_t)C.AC.getIntWidth(CT);
      O["is"] = CT->isSignedIntegerOrEnumerationType();
      if (CT->isEnumeralType()) O["enum"] = true;
    }
  }

  const Stmt *parentOf(const Stmt *S) { return PM ? PM->getParent(S) : nullptr; }

  // How is the value of expression E consumed?
  std::string useOf(const Expr *E) {
    const Stmt *Cur = E;
    bool Neg = false;
    for (int Depth = 0; Depth < 64; ++Depth) {
      const Stmt *P = parentOf(Cur);
      if (!P) {
        if (CtorInits.count(Cur)) return "init";
        return "discard";
      }
      if (isa<ParenExpr>(P) || isa<ImplicitCastExpr>(P) ||
          isa<ExprWithCleanups>(P) || isa<CXXBindTemporaryExpr>(P) ||
          isa<MaterializeTemporaryExpr>(P) || isa<ConstantExpr>(P)) {
        Cur = P;
        continue;
      }
      if (auto *CE = dyn_cast<ExplicitCastExpr>(P)) {
        if (CE->getCastKind() == CK_ToVoid) return "voidcast";
        Cur = P;
        continue;
      }
      if (auto *U = dyn_cast<UnaryOperator>(P)) {
        if (U->getOpcode() == UO_LNot) {
          Neg = !Neg;
          Cur = P;
          continue;
        }
        return "used";
      }
      if (isa<CompoundStmt>(P)) return "discard";
      if (auto *I = dyn_cast<IfStmt>(P))
        return I->getCond() == Cur ? "cond" : "discard";
      if (auto *W = dyn_cast<WhileStmt>(P))
        return W->getCond() == Cur ? "cond" : "discard";
      if (auto *D = dyn_cast<DoStmt>(P))
        return D->getCond() == Cur ? "cond" : "discard";
      if (auto *F = dyn_cast<ForStmt>(P))
        return F->getCond() == Cur ? "cond" : "discard";
      if (isa<CXXForRangeStmt>(P)) return "used";
      if (auto *S = dyn_cast<SwitchStmt>(P))
        return S->getCond() == Cur ? "cond" : "discard";
      if (isa<CaseStmt>(P) || isa<DefaultStmt>(P) || isa<LabelStmt>(P) ||
          isa<AttributedStmt>(P))
        return "discard";
      if (isa<ReturnStmt>(P)) return "ret";
      if (auto *B = dyn_cast<BinaryOperator>(P)) {
        if (B->isAssignmentOp()) return B->getRHS() == Cur ? "assign" : "used";
        if (B->isLogicalOp()) return "cond";
        if (B->getOpcode() == BO_Comma) {
          if (B->getLHS() == Cur) return "discard";
          Cur = P;
          continue;
        }
        if (B->isComparisonOp()) return "cmp";
        return "used";
      }
      if (auto *CO = dyn_cast<ConditionalOperator>(P)) {
        if (CO->getCond() == Cur) return "cond";
        Cur = P;
        continue;
      }
      if (isa<DeclStmt>(P)) return "init";
      if (isa<CallExpr>(P) || isa<CXXConstructExpr>(P)) return "arg";
      return "used";
    }
    return "used";
  }

  json::Value constVal(const Expr *E) {
    // integer constant evaluation (no side effects)
    if (!E || E->isValueDependent() || E->isTypeDependent()) return nullptr;
    QualType T = E->getType();
    if (T.isNull() || !T->isIntegralOrEnumerationType()) return nullptr;
    Expr::EvalResult R;
    if (!E->EvaluateAsInt(R, C.AC, Expr::SE_NoSideEffects)) return nullptr;
    llvm::APSInt V = R.Val.getInt();
    if (V.isSigned() || V.getActiveBits() <= 63) return V.getExtValue();
    return (int64_t)V.getZExtValue();
  }

  void markNode(json::Object &O, const Stmt *S) {
    O["i"] = sid(S);
    auto It = StmtBlock.find(S);
    if (It != StmtBlock.end()) O["b"] = It->second;
    O["loc"] = C.lcStr(S->getBeginLoc());
  }

  json::Value fnRef(const FunctionDecl *F) {
    json::Object O;
    O["k"] = "fn";
    O["n"] = C.declName(F);
    O["m"] = C.mangled(F);
    return std::move(O);
  }

  void addCallee(json::Object &O, const FunctionDecl *F) {
    O["fn"] = C.declName(F);
    O["m"] = C.mangled(F);
    if (auto *TI = F->getTemplateInstantiationPattern())
      O["pat"] = C.declName(TI);
    if (C.inRoots(F->getLocation())) O["floc"] = C.locStr(F->getLocation());
    addType(O, F->getReturnType(), "ret");
    if (F->isNoReturn()) O["noreturn"] = true;
    json::Array PT;
    for (unsigned I = 0; I < F->getNumParams(); ++I)
      PT.push_back(C.typeStr(F->getParamDecl(I)->getType()));
    O["pt"] = std::move(PT);
    // parameter types that are non-const reference / pointer (out-params)
    json::Array Outs;
    for (unsigned I = 0; I < F->getNumParams(); ++I) {
      QualType PT = F->getParamDecl(I)->getType();
      bool Out = false;
      if (PT->isPointerType() || PT->isLValueReferenceType()) {
        QualType Pointee = PT->getPointeeType();
        if (!Pointee.isNull() && !Pointee.isConstQualified() &&
            !Pointee->isFunctionType())
          Out = true;
      }
      if (Out) Outs.push_back((int64_t)I);
    }
    if (!Outs.empty()) O["outs"] = std::move(Outs);
  }

  json::Value tree(const Stmt *S) {
    if (!S) return nullptr;
    if (auto *E = dyn_cast<Expr>(S)) {
      // transparent wrappers
      if (auto *P = dyn_cast<ParenExpr>(E)) return tree(P->getSubExpr());
      if (auto *P = dyn_cast<ExprWithCleanups>(E)) return tree(P->getSubExpr());
      if (auto *P = dyn_cast<CXXBindTemporaryExpr>(E))
        return tree(P->getSubExpr());
      if (auto *P = dyn_cast<MaterializeTemporaryExpr>(E))
        return tree(P->getSubExpr());
      if (auto *P = dyn_cast<ConstantExpr>(E)) return tree(P->getSubExpr());
      if (auto *P = dyn_cast<SubstNonTypeTemplateParmExpr>(E))
        return tree(P->getReplacement());
      if (auto *P = dyn_cast<CXXDefaultArgExpr>(E)) {
        json::Object O;
        O["k"] = "defarg";
        if (auto V = constVal(P->getExpr()); !(V == json::Value(nullptr)))
          O["v"] = std::move(V);
        return std::move(O);
      }
      if (auto *P = dyn_cast<CXXDefaultInitExpr>(E)) return tree(P->getExpr());
      if (auto *P = dyn_cast<CXXStdInitializerListExpr>(E))
        return tree(P->getSubExpr());

      // literals / constants
      if (isa<IntegerLiteral>(E) || isa<CXXBoolLiteralExpr>(E) ||
          isa<CharacterLiteral>(E)) {
        json::Object O;
        O["k"] = "lit";
        O["v"] = constVal(E);
        if (isa<CXXBoolLiteralExpr>(E)) O["bool"] = true;
        return std::move(O);
      }
      if (auto *F = dyn_cast<FloatingLiteral>(E)) {
        json::Object O;
        O["k"] = "lit";
        O["f"] = F->getValueAsApproximateDouble();
        return std::move(O);
      }
      if (auto *SL = dyn_cast<StringLiteral>(E)) {
        json::Object O;
        O["k"] = "lit";
        if (SL->isAscii() || SL->isUTF8())
          O["s"] = SL->getString().str();
        else
          O["s"] = "<wide>";
        return std::move(O);
      }
      if (isa<CXXNullPtrLiteralExpr>(E) || isa<GNUNullExpr>(E)) {
        json::Object O;
        O["k"] = "lit";
        O["null"] = true;
        O["v"] = 0;
        return std::move(O);
      }
      if (isa<CXXScalarValueInitExpr>(E) || isa<ImplicitValueInitExpr>(E)) {
        json::Object O;
        O["k"] = "lit";
        O["v"] = 0;
        O["zeroinit"] = true;
        return std::move(O);
      }
      if (isa<CXXThisExpr>(E)) {
        json::Object O;
        O["k"] = "this";
        return std::move(O);
      }
      if (auto *ICE = dyn_cast<ImplicitCastExpr>(E)) {
        CastKind K = ICE->getCastKind();
        if (K == CK_IntegralCast || K == CK_IntegralToBoolean ||
            K == CK_IntegralToFloating || K == CK_FloatingToIntegral) {
          // keep width-changing implicit casts visible, but cheap
          json::Value Sub = tree(ICE->getSubExpr());
          json::Object O;
          O["k"] = "icast";
          addType(O, ICE->getType(), "to");
          O["e"] = std::move(Sub);
          if (auto V = constVal(E); !(V == json::Value(nullptr)))
            O["v"] = std::move(V);
          return std::move(O);
        }
        return tree(ICE->getSubExpr());
      }
      if (auto *CE = dyn_cast<ExplicitCastExpr>(E)) {
        json::Object O;
        O["k"] = "cast";
        const char *Style = "c";
        if (isa<CXXStaticCastExpr>(CE)) Style = "static";
        else if (isa<CXXFunctionalCastExpr>(CE)) Style = "functional";
        else if (isa<CXXReinterpretCastExpr>(CE)) Style = "reinterpret";
        else if (isa<CXXConstCastExpr>(CE)) Style = "const";
        else if (isa<CXXDynamicCastExpr>(CE)) Style = "dynamic";
        O["style"] = Style;
        O["ck"] = CE->getCastKindName();
        addType(O, CE->getType(), "to");
        QualType From = CE->getSubExpr()->getType();
        O["from"] = C.typeStr(From);
        QualType To = CE->getType();
        if (!To.isNull() && To->isEnumeralType() && !From.isNull() &&
            !From->isEnumeralType())
          O["toenum"] = true;
        // const dropped on pointee?
        auto Pointee = [](QualType T) -> QualType {
          if (T.isNull()) return T;
          if (T->isPointerType() || T->isReferenceType())
            return T->getPointeeType();
          return QualType();
        };
        QualType FP = Pointee(From.getCanonicalType()),
                 TP = Pointee(To.getCanonicalType());
        if (!FP.isNull() && !TP.isNull() && FP.isConstQualified() &&
            !TP.isConstQualified())
          O["dropconst"] = true;
        markNode(O, E);
        if (auto V = constVal(E); !(V == json::Value(nullptr)))
          O["v"] = std::move(V);
        O["e"] = tree(CE->getSubExpr());
        return std::move(O);
      }
      if (auto *DRE = dyn_cast<DeclRefExpr>(E)) {
        const ValueDecl *D = DRE->getDecl();
        if (auto *EC = dyn_cast<EnumConstantDecl>(D)) {
          json::Object O;
          O["k"] = "lit";
          O["v"] = EC->getInitVal().getExtValue();
          O["n"] = C.declName(EC);
          return std::move(O);
        }
        if (auto *F = dyn_cast<FunctionDecl>(D)) return fnRef(F);
        if (auto *VD = dyn_cast<VarDecl>(D)) {
          json::Object O;
          O["k"] = "var";
          O["n"] = VD->getNameAsString();
          addType(O, VD->getType());
          if (auto *PV = dyn_cast<ParmVarDecl>(VD)) {
            if (PV->getDeclContext() == FD ||
                PV->getDeclContext() == FD->getCanonicalDecl())
              O["p"] = (int64_t)PV->getFunctionScopeIndex();
            O["d"] = did(VD);
          } else if (VD->hasGlobalStorage()) {
            O["g"] = C.declName(VD);
            if (VD->isStaticLocal()) O["sl"] = true;
          } else {
            O["d"] = did(VD);
          }
          if (auto V = constVal(E); !(V == json::Value(nullptr)))
            O["v"] = std::move(V);
          return std::move(O);
        }
        json::Object O;
        O["k"] = "ref";
        O["n"] = C.declName(D);
        return std::move(O);
      }
      if (auto *ME = dyn_cast<MemberExpr>(E)) {
        const ValueDecl *D = ME->getMemberDecl();
        if (auto *F = dyn_cast<FieldDecl>(D)) {
          json::Object O;
          O["k"] = "field";
          O["n"] = F->getNameAsString();
          if (auto *RD = dyn_cast<CXXRecordDecl>(F->getParent()))
            O["cls"] = C.declName(RD);
          addType(O, F->getType());
          if (F->isBitField()) O["bw"] = (int64_t)F->getBitWidthValue(C.AC);
          const Expr *B = ME->getBase()->IgnoreParenImpCasts();
          if (isa<CXXThisExpr>(B))
            O["this"] = true;
          else
            O["base"] = tree(ME->getBase());
          return std::move(O);
        }
        if (auto *VD = dyn_cast<VarDecl>(D)) {
          json::Object O;
          O["k"] = "var";
          O["n"] = VD->getNameAsString();
          O["g"] = C.declName(VD);
          addType(O, VD->getType());
          if (auto V = constVal(E); !(V == json::Value(nullptr)))
            O["v"] = std::move(V);
          return std::move(O);
        }
        if (auto *EC = dyn_cast<EnumConstantDecl>(D)) {
          json::Object O;
          O["k"] = "lit";
          O["v"] = EC->getInitVal().getExtValue();
          O["n"] = C.declName(EC);
          return std::move(O);
        }
        if (auto *MD = dyn_cast<CXXMethodDecl>(D)) {
          json::Object O;
          O["k"] = "fn";
          O["n"] = C.declName(MD);
          O["m"] = C.mangled(MD);
          O["base"] = tree(ME->getBase());
          return std::move(O);
        }
      }
      if (auto *U = dyn_cast<UnaryOperator>(E)) {
        json::Object O;
        O["k"] = "un";
        O["op"] = UnaryOperator::getOpcodeStr(U->getOpcode()).str();
        if (U->isPostfix()) O["post"] = true;
        if (auto V = constVal(E); !(V == json::Value(nullptr)))
          O["v"] = std::move(V);
        if (U->getOpcode() == UO_Deref) markNode(O, E);
        O["e"] = tree(U->getSubExpr());
        return std::move(O);
      }
      if (auto *B = dyn_cast<BinaryOperator>(E)) {
        json::Object O;
        O["k"] = "bin";
        O["op"] = B->getOpcodeStr().str();
        if (auto V = constVal(E); !(V == json::Value(nullptr)))
          O["v"] = std::move(V);
        if (B->isAssignmentOp()) markNode(O, E);
        O["l"] = tree(B->getLHS());
        O["r"] = tree(B->getRHS());
        return std::move(O);
      }
      if (auto *CO = dyn_cast<AbstractConditionalOperator>(E)) {
        json::Object O;
        O["k"] = "cond";
        O["c"] = tree(CO->getCond());
        O["t"] = tree(CO->getTrueExpr());
        O["f"] = tree(CO->getFalseExpr());
        return std::move(O);
      }
      if (auto *AS = dyn_cast<ArraySubscriptExpr>(E)) {
        json::Object O;
        O["k"] = "sub";
        markNode(O, E);
        O["base"] = tree(AS->getBase());
        O["idx"] = tree(AS->getIdx());
        addType(O, AS->getBase()->IgnoreParenImpCasts()->getType(), "bt");
        return std::move(O);
      }
      if (auto *CE = dyn_cast<CallExpr>(E)) {
        json::Object O;
        O["k"] = "call";
        markNode(O, E);
        O["use"] = useOf(CE);
        const FunctionDecl *Callee = CE->getDirectCallee();
        unsigned FirstArg = 0;
        if (auto *MC = dyn_cast<CXXMemberCallExpr>(CE)) {
          const CXXMethodDecl *MD = MC->getMethodDecl();
          if (MD) Callee = MD;
          const Expr *Obj = MC->getImplicitObjectArgument();
          if (Obj) {
            if (isa<CXXThisExpr>(Obj->IgnoreParenImpCasts()))
              O["objthis"] = true;
            O["obj"] = tree(Obj);
            QualType OT = Obj->IgnoreParenImpCasts()->getType();
            if (!OT.isNull()) {
              if (OT->isPointerType()) OT = OT->getPointeeType();
              O["objt"] = C.typeStr(OT.getUnqualifiedType());
              if (OT.isConstQualified()) O["objconst"] = true;
            }
          }
          if (MD && MD->isVirtual()) {
            bool Qualified = false;
            if (auto *ME =
                    dyn_cast<MemberExpr>(MC->getCallee()->IgnoreParens()))
              Qualified = ME->hasQualifier();
            if (!Qualified) O["virt"] = true;
          }
        } else if (auto *OC = dyn_cast<CXXOperatorCallExpr>(CE)) {
          if (auto *MD = dyn_cast_or_null<CXXMethodDecl>(Callee)) {
            if (!MD->isStatic() && OC->getNumArgs() > 0) {
              O["obj"] = tree(OC->getArg(0));
              QualType OT = OC->getArg(0)->IgnoreParenImpCasts()->getType();
              if (!OT.isNull()) O["objt"] = C.typeStr(OT.getUnqualifiedType());
              if (isa<CXXThisExpr>(OC->getArg(0)->IgnoreParenImpCasts()))
                O["objthis"] = true;
              FirstArg = 1;
            }
          }
          O["opcall"] = true;
        }
        if (Callee) {
          addCallee(O, Callee);
        } else {
          O["fn"] = nullptr;
          O["calleeexpr"] = tree(CE->getCallee());
          addType(O, CE->getType(), "ret");
        }
        json::Array Args;
        for (unsigned I = FirstArg; I < CE->getNumArgs(); ++I)
          Args.push_back(tree(CE->getArg(I)));
        O["args"] = std::move(Args);
        return std::move(O);
      }
      if (auto *CE = dyn_cast<CXXConstructExpr>(E)) {
        const CXXConstructorDecl *CD = CE->getConstructor();
        if (CD->isCopyOrMoveConstructor() && CE->getNumArgs() == 1) {
          json::Object O;
          O["k"] = "copy";
          O["cls"] = C.declName(CD->getParent());
          O["e"] = tree(CE->getArg(0));
          return std::move(O);
        }
        json::Object O;
        O["k"] = "ctor";
        markNode(O, E);
        O["cls"] = C.declName(CD->getParent());
        addCallee(O, CD);
        json::Array Args;
        for (unsigned I = 0; I < CE->getNumArgs(); ++I)
          Args.push_back(tree(CE->getArg(I)));
        O["args"] = std::move(Args);
        return std::move(O);
      }
      if (auto *NE = dyn_cast<CXXNewExpr>(E)) {
        json::Object O;
        O["k"] = "new";
        markNode(O, E);
        O["t"] = C.typeStr(NE->getAllocatedType());
        if (NE->isArray()) {
          if (auto Sz = NE->getArraySize(); Sz && *Sz)
            O["array"] = tree(*Sz);
          else
            O["array"] = nullptr;
          O["elsize"] = (int64_t)C.AC.getTypeSizeInChars(NE->getAllocatedType())
                            .getQuantity();
        }
        if (NE->getNumPlacementArgs() > 0) {
          json::Array PA;
          for (unsigned I = 0; I < NE->getNumPlacementArgs(); ++I)
            PA.push_back(tree(NE->getPlacementArg(I)));
          O["placement"] = std::move(PA);
        }
        if (NE->getInitializer()) O["init"] = tree(NE->getInitializer());
        return std::move(O);
      }
      if (auto *DE = dyn_cast<CXXDeleteExpr>(E)) {
        json::Object O;
        O["k"] = "delete";
        O["e"] = tree(DE->getArgument());
        return std::move(O);
      }
      if (auto *IL = dyn_cast<InitListExpr>(E)) {
        json::Object O;
        O["k"] = "list";
        json::Array Ch;
        for (unsigned I = 0; I < IL->getNumInits(); ++I)
          Ch.push_back(tree(IL->getInit(I)));
        O["ch"] = std::move(Ch);
        return std::move(O);
      }
      if (auto *LE = dyn_cast<LambdaExpr>(E)) {
        json::Object O;
        O["k"] = "lambda";
        if (auto *Op = LE->getCallOperator()) {
          O["n"] = C.declName(Op);
          O["m"] = C.mangled(Op);
        }
        return std::move(O);
      }
      if (isa<CXXThrowExpr>(E)) {
        json::Object O;
        O["k"] = "throw";
        markNode(O, E);
        return std::move(O);
      }
      // any other expression: constant if evaluable, else generic
      if (auto V = constVal(E); !(V == json::Value(nullptr))) {
        json::Object O;
        O["k"] = "lit";
        O["v"] = std::move(V);
        O["c"] = E->getStmtClassName();
        return std::move(O);
      }
    }
    json::Object O;
    O["k"] = "other";
    O["c"] = S->getStmtClassName();
    json::Array Ch;
    for (const Stmt *Sub : S->children())
      if (Sub) Ch.push_back(tree(Sub));
    if (!Ch.empty()) O["ch"] = std::move(Ch);
    return std::move(O);
  }

  json::Value varDecl(const VarDecl *VD) {
    json::Object O;
    O["n"] = VD->getNameAsString();
    O["d"] = did(VD);
    addType(O, VD->getType());
    if (VD->hasGlobalStorage()) {
      O["g"] = C.declName(VD);
      if (VD->isStaticLocal()) O["sl"] = true;
      if (VD->getType().isConstQualified()) O["const"] = true;
    }
    return std::move(O);
  }

  // The condition actually evaluated last in the block: for `if (a || b)`
  // the block ending in the IfStmt evaluates `b`, not the whole disjunction.
  static const Stmt *condOf(const CFGBlock *B) {
    if (!B->getTerminatorStmt()) return nullptr;
    if (B->succ_size() == 2)
      if (const Expr *E = B->getLastCondition()) return E;
    return B->getTerminatorCondition(false);
  }

  bool emit() {
    const Stmt *Body = FD->getBody();
    if (!Body) return false;
    PM = std::make_unique<ParentMap>(const_cast<Stmt *>(Body));
    if (auto *CD = dyn_cast<CXXConstructorDecl>(FD))
      for (auto *I : CD->inits())
        if (I->getInit()) {
          PM->addStmt(I->getInit());
          CtorInits.insert(I->getInit());
        }

    CFG::BuildOptions BO;
    BO.setAllAlwaysAdd();
    BO.AddInitializers = true;
    BO.AddImplicitDtors = false;
    BO.AddTemporaryDtors = false;
    BO.AddEHEdges = false;
    BO.PruneTriviallyFalseEdges = true;
    std::unique_ptr<CFG> G =
        CFG::buildCFG(FD, const_cast<Stmt *>(Body), &C.AC, BO);
    if (!G) {
      ++NumCfgFail;
      return false;
    }

    // element membership
    std::map<const CFGBlock *, std::set<const Stmt *>> Elems;
    for (const CFGBlock *B : *G)
      for (const CFGElement &E : *B)
        if (auto S = E.getAs<CFGStmt>()) {
          StmtBlock[S->getStmt()] = B->getBlockID();
          Elems[B].insert(S->getStmt());
        }

    json::Object F;
    F["rec"] = "fn";
    F["name"] = C.declName(FD);
    F["m"] = C.mangled(FD);
    F["loc"] = C.locStr(FD->getLocation());
    F["end"] = C.lcStr(FD->getEndLoc());
    if (auto *TI = FD->getTemplateInstantiationPattern()) {
      F["inst"] = true;
      F["pat"] = C.declName(TI);
    } else if (FD->isTemplateInstantiation()) {
      F["inst"] = true;
    }
    {
      json::Object R;
      addType(R, FD->getReturnType());
      F["ret"] = std::move(R);
    }
    json::Array Params;
    for (auto *P : FD->parameters()) Params.push_back(varDecl(P));
    F["params"] = std::move(Params);
    if (auto *MD = dyn_cast<CXXMethodDecl>(FD)) {
      F["cls"] = C.declName(MD->getParent());
      if (MD->isVirtual()) F["virtual"] = true;
      if (MD->isConst()) F["constm"] = true;
      if (MD->isStatic()) F["static"] = true;
      if (isa<CXXConstructorDecl>(MD)) F["ctor"] = true;
      if (isa<CXXDestructorDecl>(MD)) F["dtor"] = true;
      if (MD->getParent()->isLambda()) F["lambda"] = true;
    }
    F["entry"] = (int64_t)G->getEntry().getBlockID();
    F["exit"] = (int64_t)G->getExit().getBlockID();

    json::Array Blocks;
    for (const CFGBlock *B : *G) {
      json::Object JB;
      JB["id"] = (int64_t)B->getBlockID();
      json::Array Succ;
      json::Array SuccLabels;
      bool AnyLabel = false;
      for (auto SI = B->succ_begin(); SI != B->succ_end(); ++SI) {
        const CFGBlock *SB = SI->getReachableBlock();
        if (!SB) {
          Succ.push_back(nullptr);
          SuccLabels.push_back(nullptr);
          continue;
        }
        Succ.push_back((int64_t)SB->getBlockID());
        const Stmt *L = SB->getLabel();
        if (auto *CS = dyn_cast_or_null<CaseStmt>(L)) {
          json::Object LO;
          LO["case"] = constVal(CS->getLHS());
          if (CS->getRHS()) LO["hi"] = constVal(CS->getRHS());
          SuccLabels.push_back(std::move(LO));
          AnyLabel = true;
        } else if (isa_and_nonnull<DefaultStmt>(L)) {
          SuccLabels.push_back("default");
          AnyLabel = true;
        } else {
          SuccLabels.push_back(nullptr);
        }
      }
      JB["succ"] = std::move(Succ);
      if (B->hasNoReturnElement()) JB["noreturn"] = true;
      if (const Stmt *T = B->getTerminatorStmt()) {
        std::string TK = T->getStmtClassName();
        if (auto *BO2 = dyn_cast<BinaryOperator>(T))
          TK += BO2->getOpcodeStr().str();
        JB["term"] = TK;
        JB["tloc"] = C.lcStr(T->getBeginLoc());
        if (isa<SwitchStmt>(T) && AnyLabel)
          JB["labels"] = std::move(SuccLabels);
        if (const Stmt *Cond = condOf(B)) {
          JB["cond"] = tree(Cond);
          JB["condsrc"] = C.srcText(Cond, 160);
        }
      }
      json::Array Ev;
      for (const CFGElement &E : *B) {
        if (auto I = E.getAs<CFGInitializer>()) {
          const CXXCtorInitializer *CI = I->getInitializer();
          json::Object O;
          O["k"] = "minit";
          if (CI->isAnyMemberInitializer())
            O["field"] = CI->getAnyMember()->getNameAsString();
          else if (CI->isBaseInitializer())
            O["base"] = C.typeStr(QualType(CI->getBaseClass(), 0));
          O["e"] = tree(CI->getInit());
          if (CI->isWritten()) O["loc"] = C.lcStr(CI->getSourceLocation());
          Ev.push_back(std::move(O));
          continue;
        }
        auto S = E.getAs<CFGStmt>();
        if (!S) continue;
        const Stmt *St = S->getStmt();
        // root? no ancestor is an element of this block
        bool Root = true;
        for (const Stmt *P = parentOf(St); P; P = parentOf(P))
          if (Elems[B].count(P)) {
            Root = false;
            break;
          }
        if (!Root) continue;
        json::Object O;
        O["loc"] = C.lcStr(St->getBeginLoc());
        if (auto *DS = dyn_cast<DeclStmt>(St)) {
          bool Any = false;
          for (auto *D : DS->decls())
            if (auto *VD = dyn_cast<VarDecl>(D)) {
              json::Object OD;
              OD["k"] = "decl";
              OD["loc"] = C.lcStr(VD->getLocation());
              OD["var"] = varDecl(VD);
              if (VD->getInit()) OD["e"] = tree(VD->getInit());
              OD["src"] = C.srcText(St, 160);
              Ev.push_back(std::move(OD));
              Any = true;
            }
          (void)Any;
          continue;
        }
        if (auto *RS = dyn_cast<ReturnStmt>(St)) {
          O["k"] = "ret";
          if (RS->getRetValue()) O["e"] = tree(RS->getRetValue());
          O["src"] = C.srcText(St, 160);
          Ev.push_back(std::move(O));
          continue;
        }
        if (isa<Expr>(St)) {
          // skip trivially uninteresting roots (pure references/literals)
          const Expr *EE = cast<Expr>(St)->IgnoreParenImpCasts();
          if (isa<DeclRefExpr>(EE) || isa<IntegerLiteral>(EE) ||
              isa<CXXThisExpr>(EE) || isa<CXXBoolLiteralExpr>(EE) ||
              isa<FloatingLiteral>(EE) || isa<StringLiteral>(EE))
            continue;
          if (auto *ME = dyn_cast<MemberExpr>(EE))
            if (isa<CXXThisExpr>(ME->getBase()->IgnoreParenImpCasts()))
              continue;
          O["k"] = "expr";
          if (condOf(B) == St) {
            O["iscond"] = true;  // tree is the block's "cond"
          } else {
            O["e"] = tree(St);
            O["src"] = C.srcText(St, 160);
          }
          Ev.push_back(std::move(O));
          continue;
        }
        // other statement kinds carry no value
      }
      JB["ev"] = std::move(Ev);
      Blocks.push_back(std::move(JB));
    }
    F["blocks"] = std::move(Blocks);
    *Out << json::Value(std::move(F)) << "\n";
    return true;
  }
};

class Visitor : public RecursiveASTVisitor<Visitor> {
 public:
  explicit Visitor(ASTContext &AC) : C(AC) {}
  bool shouldVisitTemplateInstantiations() const { return true; }
  bool shouldVisitImplicitCode() const { return false; }

  void handleFn(const FunctionDecl *FD) {
    if (!FD->doesThisDeclarationHaveABody()) return;
    if (FD->isDependentContext()) return;
    if (FD->isImplicit() || FD->isDefaulted() || FD->isDeleted()) return;
    if (!C.inRoots(FD->getLocation())) return;
    std::string Key = C.mangled(FD);
    if (Key.empty()) Key = C.declName(FD);
    Key += "@" + C.locStr(FD->getLocation());
    if (!SeenFn.insert(Key).second) return;
    FnEmitter FE(C, FD);
    if (FE.emit()) {
      ++NumFns;
      if (FD->isTemplateInstantiation() ||
          FD->getTemplateInstantiationPattern())
        ++NumInst;
    }
  }

  bool VisitFunctionDecl(FunctionDecl *FD) {
    handleFn(FD);
    return true;
  }
  bool VisitLambdaExpr(LambdaExpr *LE) {
    if (auto *Op = LE->getCallOperator()) handleFn(Op);
    return true;
  }

  bool VisitCXXRecordDecl(CXXRecordDecl *RD) {
    if (!RD->isCompleteDefinition() || RD->isDependentContext()) return true;
    if (RD->isLambda() || RD->isImplicit()) return true;
    if (!C.inRoots(RD->getLocation())) return true;
    std::string Name = C.declName(RD);
    if (!SeenCls.insert(Name + "@" + C.locStr(RD->getLocation())).second)
      return true;
    json::Object O;
    O["rec"] = "class";
    O["name"] = Name;
    O["loc"] = C.locStr(RD->getLocation());
    if (auto *S = dyn_cast<ClassTemplateSpecializationDecl>(RD))
      O["pat"] = C.declName(S->getSpecializedTemplate());
    json::Array Bases;
    for (auto &B : RD->bases()) Bases.push_back(C.typeStr(B.getType()));
    O["bases"] = std::move(Bases);
    json::Array Fields;
    for (auto *F : RD->fields()) {
      json::Object FO;
      FO["n"] = F->getNameAsString();
      FO["t"] = C.typeStr(F->getType());
      if (F->getType().isConstQualified()) FO["const"] = true;
      if (F->isMutable()) FO["mutable"] = true;
      QualType T = F->getType();
      if (T->isPointerType() && T->getPointeeType().isConstQualified())
        FO["ptrconst"] = true;
      Fields.push_back(std::move(FO));
    }
    O["fields"] = std::move(Fields);
    json::Array Methods;
    for (auto *M : RD->methods()) {
      if (M->isImplicit()) continue;
      json::Object MO;
      MO["n"] = C.declName(M);
      MO["sn"] = M->getNameAsString();
      MO["m"] = C.mangled(M);
      if (M->isVirtual()) MO["virt"] = true;
      if (M->isPure()) MO["pure"] = true;
      if (M->isConst()) MO["const"] = true;
      if (M->getAccess() == AS_public) MO["public"] = true;
      json::Array Ov;
      for (auto *OM : M->overridden_methods()) {
        json::Object OO;
        OO["n"] = C.declName(OM);
        OO["m"] = C.mangled(OM);
        Ov.push_back(std::move(OO));
      }
      if (!Ov.empty()) MO["overrides"] = std::move(Ov);
      Methods.push_back(std::move(MO));
    }
    O["methods"] = std::move(Methods);
    // static data members
    *Out << json::Value(std::move(O)) << "\n";
    return true;
  }

  bool VisitEnumDecl(EnumDecl *ED) {
    if (!ED->isCompleteDefinition()) return true;
    if (!C.inRoots(ED->getLocation())) return true;
    if (ED->isDependentContext()) return true;
    std::string Name = C.declName(ED);
    if (!SeenEnum.insert(Name + "@" + C.locStr(ED->getLocation())).second)
      return true;
    json::Object O;
    O["rec"] = "enum";
    O["name"] = Name;
    O["loc"] = C.locStr(ED->getLocation());
    O["underlying"] = C.typeStr(ED->getIntegerType());
    if (ED->isFixed()) O["fixed"] = true;
    json::Array Es;
    for (auto *EC : ED->enumerators()) {
      json::Object EO;
      EO["n"] = EC->getNameAsString();
      EO["v"] = EC->getInitVal().getExtValue();
      Es.push_back(std::move(EO));
    }
    O["enumerators"] = std::move(Es);
    *Out << json::Value(std::move(O)) << "\n";
    return true;
  }

  bool VisitVarDecl(VarDecl *VD) {
    if (!VD->hasGlobalStorage()) return true;
    if (isa<ParmVarDecl>(VD)) return true;
    if (!C.inRoots(VD->getLocation())) return true;
    if (VD->getDeclContext()->isDependentContext()) return true;
    if (VD->getType()->isDependentType()) return true;
    if (!VD->isThisDeclarationADefinition() && !VD->isStaticDataMember())
      return true;
    std::string Name = C.declName(VD);
    std::string Key = Name + "@" + C.locStr(VD->getLocation());
    if (auto *F = dyn_cast<FunctionDecl>(VD->getDeclContext()))
      Key += "@" + C.mangled(F);
    if (!SeenVar.insert(Key).second) return true;
    json::Object O;
    O["rec"] = "global";
    O["name"] = Name;
    O["loc"] = C.locStr(VD->getLocation());
    O["t"] = C.typeStr(VD->getType());
    if (VD->getType().isConstQualified()) O["const"] = true;
    if (VD->isConstexpr()) O["constexpr"] = true;
    if (VD->isStaticLocal()) {
      O["staticlocal"] = true;
      if (auto *F = dyn_cast<FunctionDecl>(VD->getDeclContext()))
        O["infn"] = C.declName(F);
    }
    if (VD->isStaticDataMember()) O["staticmember"] = true;
    if (VD->getTLSKind() != VarDecl::TLS_None) O["tls"] = true;
    if (const Expr *I = VD->getAnyInitializer()) {
      if (!I->isValueDependent()) {
        QualType T = VD->getType();
        if (T->isIntegralOrEnumerationType()) {
          Expr::EvalResult R;
          if (I->EvaluateAsInt(R, C.AC, Expr::SE_NoSideEffects))
            O["v"] = R.Val.getInt().getExtValue();
        } else if (T->isFloatingType()) {
          llvm::APFloat FV(0.0);
          if (I->EvaluateAsFloat(FV, C.AC, Expr::SE_NoSideEffects))
            O["f"] = FV.convertToDouble();
        }
      }
    }
    *Out << json::Value(std::move(O)) << "\n";
    return true;
  }

 private:
  Ctx C;
};

class Consumer : public ASTConsumer {
 public:
  void HandleTranslationUnit(ASTContext &AC) override {
    if (AC.getDiagnostics().hasFatalErrorOccurred()) return;
    Visitor V(AC);
    V.TraverseDecl(AC.getTranslationUnitDecl());
    ++NumUnits;
  }
};

class Action : public ASTFrontendAction {
 public:
  std::unique_ptr<ASTConsumer> CreateASTConsumer(CompilerInstance &,
                                                 StringRef File) override {
    json::Object O;
    O["rec"] = "unit";
    O["file"] = File.str();
    *Out << json::Value(std::move(O)) << "\n";
    return std::make_unique<Consumer>();
  }
};

}  // namespace

int main(int argc, const char **argv) {
  auto Exp = CommonOptionsParser::create(argc, argv, Cat);
  if (!Exp) {
    llvm::errs() << llvm::toString(Exp.takeError()) << "\n";
    return 2;
  }
  CommonOptionsParser &OP = Exp.get();
  std::error_code EC;
  Out = std::make_unique<llvm::raw_fd_ostream>(OutFile, EC);
  if (EC) {
    llvm::errs() << "cannot open " << OutFile << ": " << EC.message() << "\n";
    return 2;
  }
  ClangTool Tool(OP.getCompilations(), OP.getSourcePathList());
  int RC = Tool.run(newFrontendActionFactory<Action>().get());
  json::Object S;
  S["rec"] = "stats";
  S["units"] = (int64_t)NumUnits;
  S["functions"] = (int64_t)NumFns;
  S["instantiations"] = (int64_t)NumInst;
  S["cfg_failures"] = (int64_t)NumCfgFail;
  S["rc"] = RC;
  *Out << json::Value(std::move(S)) << "\n";
  Out->flush();
  return RC == 0 ? 0 : 1;
}
