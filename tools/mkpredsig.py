#!/usr/bin/env python3
"""Freezes the decoder-side prediction signatures (rules/predsig_ledger.json) from the *reviewed* tree.
usage: tools/mkpredsig.py --freeze   (prints the signatures without --freeze)"""
import json, os, sys
V = os.path.dirname(os.path.dirname(os.path.abspath(__file__)))
sys.path.insert(0, V)
from verif.check import Ctx
from verif.predsig import decoder_signatures
sig = decoder_signatures(Ctx("quick").F)
if "--freeze" in sys.argv:
    json.dump({"_comment": "LEDGER-PREDSIG (C05): set of (operation/width[/constant]) and shared helpers in the backward "
               "slice of the predicted value of every prediction-scheme decoder, helpers of the prediction_schemes "
               "directory inlined. Frozen by tools/mkpredsig.py --freeze from the reviewed tree.", "decoders": sig},
              open(os.path.join(V, "rules", "predsig_ledger.json"), "w"), indent=1)
for k, v in sorted(sig.items()):
    print(k, v)
