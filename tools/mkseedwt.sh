#!/bin/sh
# Creates a scratch git worktree of /repo for an independent "break the
# property" sub-agent: /tmp/seed/<name>, with googletest copied in (submodule
# content is not part of a worktree).  Remove with:
#   git -C /repo worktree remove --force /tmp/seed/<name>
set -e
name="$1"
d=/tmp/seed/$name
mkdir -p /tmp/seed
git -C /repo worktree add --detach "$d" HEAD >/dev/null 2>&1
rm -rf "$d/third_party/googletest"
cp -r /repo/third_party/googletest "$d/third_party/googletest"
echo "$d"
