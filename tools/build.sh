#!/bin/sh
# Builds the analysis engines from files on disk only (offline).
set -e
cd "$(dirname "$0")/.."
mkdir -p bin
LLVM_LIBS="/usr/lib/llvm-14/lib/libclang-cpp.so.14 /usr/lib/llvm-14/lib/libLLVM-14.so"
CXXFLAGS="$(llvm-config-14 --cxxflags) -std=c++17 -fno-rtti -O1 -w"
build() { # src out
  if [ ! -x "$2" ] || [ "$1" -nt "$2" ]; then
    echo "building $2"
    clang++ $CXXFLAGS "$1" -o "$2" $LLVM_LIBS
  fi
}
build tools/dfacts.cc bin/dfacts &
if [ -f tools/dreach.cc ]; then build tools/dreach.cc bin/dreach & fi
wait
test -x bin/dfacts
