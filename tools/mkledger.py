#!/usr/bin/env python3
"""One-time generator of rules/format_ledger.json from the current tree.
The output is reviewed and frozen; checks only ever read it."""
import json, os, sys
sys.path.insert(0, os.path.dirname(os.path.dirname(os.path.abspath(__file__))))
from verif.check import Ctx
from verif.dispatch_check import reader_tables

WIRE_ENUMS = ["draco::EncodedGeometryType", "draco::PointCloudEncodingMethod", "draco::MeshEncoderMethod",
              "draco::SequentialAttributeEncoderType", "draco::PredictionSchemeMethod",
              "draco::PredictionSchemeTransformType", "draco::MeshTraversalMethod",
              "draco::MeshEdgebreakerConnectivityEncodingMethod", "draco::SymbolCodingMethod",
              "draco::MeshAttributeElementType", "draco::GeometryAttribute::Type", "draco::DataType",
              "draco::AttributeTransformType", "draco::EdgebreakerTopologyBitPattern",
              "draco::EdgebreakerSymbol", "draco::EdgeFaceName", "draco::NormalPredictionMode",
              "draco::KdTreeAttributesEncodingMethod", "draco::constrained_multi_parallelogram::Mode"]
SENTINEL = ("NUM_", "_COUNT", "INVALID", "TYPES_COUNT")
CONSTS = ["draco::kDracoPointCloudBitstreamVersionMajor", "draco::kDracoPointCloudBitstreamVersionMinor",
          "draco::kDracoMeshBitstreamVersionMajor", "draco::kDracoMeshBitstreamVersionMinor",
          "draco::kMaxRawEncodingBitLength", "draco::kMaxTagSymbolBitLength",
          "draco::constrained_multi_parallelogram::kMaxNumParallelograms",
          "draco::FloatPointsTreeDecoder::version_", "draco::KeyframeAnimation::kTimestampId"]
c = Ctx("quick"); F = c.F
led = {"_comment": "Frozen format-constant ledger (values, not text). Generated once by tools/mkledger.py from the pinned tree and reviewed; a changed value is a silent format change, a vanished name is analysis-broken. Sentinel enumerators (NUM_*, *_COUNT, *INVALID*) are not part of the wire format and are left out so that adding a new id stays legal.",
       "enums": {}, "constants": {}, "precision": {}, "arrays": {}, "macros": {}, "layout": {}, "dispatch": {}}
for en in WIRE_ENUMS:
    e = F.enums[en]
    led["enums"][en] = {x["n"]: x["v"] for x in e["enumerators"] if not any(s in x["n"] for s in SENTINEL)}
for cn in CONSTS:
    led["constants"][cn] = F.globals[cn]["v"]
for n in range(1, 19):
    led["constants"]["draco::RAnsSymbolDecoder<%d>::rans_precision_bits_" % n] = \
        F.globals["draco::RAnsSymbolDecoder<%d>::rans_precision_bits_" % n]["v"]
def prec(n):
    u = (3 * n) // 2
    return 12 if u < 12 else 20 if u > 20 else u
led["precision"] = {str(n): prec(n) for n in list(range(1, 19)) + [5]}
led["arrays"] = {"draco::edge_breaker_topology_bit_pattern_length": [1, 3, 0, 3, 0, 3, 0, 3],
                 "draco::edge_breaker_topology_to_symbol_id": [0, 1, 5, 2, 5, 3, 5, 4],
                 "draco::edge_breaker_symbol_to_topology_id": [0, 1, 3, 5, 7]}
led["macros"] = {"DRACO_ANS_P8_PRECISION": "256u", "DRACO_ANS_L_BASE": "(4096u)", "DRACO_ANS_IO_BASE": "256",
                 "METADATA_FLAG_MASK": "0x8000"}
led["layout"] = {"sizeof(draco::DracoHeader)": 12, "offsetof(draco::DracoHeader, version_major)": 5,
                 "offsetof(draco::DracoHeader, version_minor)": 6, "offsetof(draco::DracoHeader, encoder_type)": 7,
                 "offsetof(draco::DracoHeader, encoder_method)": 8, "offsetof(draco::DracoHeader, flags)": 10}
led["released_versions"] = [[1, 1], [1, 2], [1, 3], [2, 0], [2, 1], [2, 2], [2, 3]]
led["dispatch"] = reader_tables(F)
from verif import selectors as SEL
from verif.core import load_table
led["selectors"] = {}
for p in load_table("selectors.json")["pairs"]:
    cur = (led["constants"][p["version_constant"][0]] << 8) | led["constants"][p["version_constant"][1]]
    led["selectors"][p["id"]] = SEL.render(SEL.selector_map(F, p["reader"], p["quantity"], cur, True))
json.dump(led, open(os.path.join(os.path.dirname(os.path.dirname(os.path.abspath(__file__))), "rules", "format_ledger.json"), "w"), indent=1)
print("enums", len(led["enums"]), "constants", len(led["constants"]))
