// dreach: whole-library LLVM IR facts (E2).  Generic: knows nothing about draco.
// Input: one linked bitcode/IR module.  Output (JSON):
//   globals:   name, constant?, declaration?, linkage, debug file:line, tls
//   vtables:   vtable symbol -> list of arrays of function names
//   functions: name, declaration?, debug file:line, direct callees,
//              virtual calls (slot index + function type), other indirect
//              calls (function type), address-taken functions referenced,
//              globals loaded / stored / otherwise referenced,
//              ptrtoint results not consumed by a pointer difference,
//              ordered pointer comparisons.
// Usage: dreach <module.bc> <out.json>
#include "llvm/IR/Constants.h"
#include "llvm/IR/DebugInfoMetadata.h"
#include "llvm/IR/Function.h"
#include "llvm/IR/GlobalAlias.h"
#include "llvm/IR/GlobalVariable.h"
#include "llvm/IR/InstIterator.h"
#include "llvm/IR/Instructions.h"
#include "llvm/IR/IntrinsicInst.h"
#include "llvm/IR/LLVMContext.h"
#include "llvm/IR/Module.h"
#include "llvm/IRReader/IRReader.h"
#include "llvm/Support/JSON.h"
#include "llvm/Support/SourceMgr.h"
#include "llvm/Support/raw_ostream.h"

#include <map>
#include <set>
#include <string>

using namespace llvm;

static std::string typeStr(Type *T) {
  std::string S;
  raw_string_ostream OS(S);
  T->print(OS, false, true);
  return OS.str();
}

// Signature of a call ignoring the `this` / first pointer argument's pointee
// (so that overriders in derived classes match the base slot's type).
static std::string sigOf(FunctionType *FT) {
  std::string S = typeStr(FT->getReturnType()) + "(";
  for (unsigned I = 0; I < FT->getNumParams(); ++I) {
    if (I) S += ",";
    if (I == 0 && FT->getParamType(0)->isPointerTy())
      S += "this*";
    else
      S += typeStr(FT->getParamType(I));
  }
  if (FT->isVarArg()) S += ",...";
  return S + ")";
}

static const Value *stripCasts(const Value *V) {
  for (int I = 0; I < 16; ++I) {
    if (auto *CE = dyn_cast<ConstantExpr>(V)) {
      if (CE->isCast() || CE->getOpcode() == Instruction::GetElementPtr) {
        V = CE->getOperand(0);
        continue;
      }
    }
    if (auto *C = dyn_cast<CastInst>(V)) {
      V = C->getOperand(0);
      continue;
    }
    if (auto *G = dyn_cast<GetElementPtrInst>(V)) {
      V = G->getPointerOperand();
      continue;
    }
    break;
  }
  return V;
}

static void collectGlobals(const Value *V, std::set<const GlobalVariable *> &Out,
                           std::set<const Function *> &Fns, int Depth = 0) {
  if (Depth > 8) return;
  if (auto *GV = dyn_cast<GlobalVariable>(V)) {
    Out.insert(GV);
    return;
  }
  if (auto *F = dyn_cast<Function>(V)) {
    Fns.insert(F);
    return;
  }
  if (auto *GA = dyn_cast<GlobalAlias>(V)) {
    if (const GlobalObject *GO = GA->getAliaseeObject()) collectGlobals(GO, Out, Fns, Depth + 1);
    return;
  }
  if (auto *CE = dyn_cast<ConstantExpr>(V))
    for (const Use &U : CE->operands()) collectGlobals(U.get(), Out, Fns, Depth + 1);
}

static std::string pathOf(StringRef Dir, StringRef File) {
  if (File.startswith("/")) return File.str();
  return (Dir + "/" + File).str();
}

static std::string locOf(const DISubprogram *SP) {
  if (!SP || !SP->getFile()) return "";
  return pathOf(SP->getFile()->getDirectory(), SP->getFile()->getFilename()) + ":" +
         std::to_string(SP->getLine());
}

int main(int argc, char **argv) {
  if (argc < 3) {
    errs() << "usage: dreach <module> <out.json>\n";
    return 2;
  }
  LLVMContext Ctx;
  SMDiagnostic Err;
  std::unique_ptr<Module> M = parseIRFile(argv[1], Err, Ctx);
  if (!M) {
    Err.print("dreach", errs());
    return 2;
  }
  json::Object Root;

  // ---- globals -----------------------------------------------------------
  json::Array Globals;
  json::Object VTables;
  for (const GlobalVariable &GV : M->globals()) {
    json::Object G;
    G["name"] = GV.getName().str();
    G["const"] = GV.isConstant();
    G["decl"] = GV.isDeclaration();
    G["linkage"] = (int64_t)GV.getLinkage();
    if (GV.isThreadLocal()) G["tls"] = true;
    SmallVector<DIGlobalVariableExpression *, 1> DIs;
    GV.getDebugInfo(DIs);
    if (!DIs.empty() && DIs[0]->getVariable()) {
      auto *DV = DIs[0]->getVariable();
      if (DV->getFile())
        G["loc"] = pathOf(DV->getFile()->getDirectory(), DV->getFile()->getFilename()) + ":" +
                   std::to_string(DV->getLine());
      G["dname"] = DV->getName().str();
    }
    G["type"] = typeStr(GV.getValueType());
    Globals.push_back(std::move(G));
    if (GV.getName().startswith("_ZTV") && GV.hasInitializer()) {
      json::Array Arrays;
      const Constant *Init = GV.getInitializer();
      auto addArray = [&](const Constant *A) {
        json::Array Slots;
        for (unsigned I = 0; I < A->getNumOperands(); ++I) {
          const Value *E = stripCasts(A->getOperand(I));
          if (auto *F = dyn_cast<Function>(E))
            Slots.push_back(F->getName().str());
          else
            Slots.push_back(nullptr);
        }
        Arrays.push_back(std::move(Slots));
      };
      if (isa<ConstantStruct>(Init)) {
        for (unsigned I = 0; I < Init->getNumOperands(); ++I)
          if (auto *A = dyn_cast<ConstantArray>(Init->getOperand(I))) addArray(A);
      } else if (auto *A = dyn_cast<ConstantArray>(Init)) {
        addArray(A);
      }
      VTables[GV.getName().str()] = std::move(Arrays);
    }
  }
  Root["globals"] = std::move(Globals);
  Root["vtables"] = std::move(VTables);

  // ---- functions -----------------------------------------------------------
  json::Object Fns;
  for (const Function &F : *M) {
    json::Object JF;
    JF["decl"] = F.isDeclaration();
    JF["sig"] = sigOf(F.getFunctionType());
    if (const DISubprogram *SP = F.getSubprogram()) JF["loc"] = locOf(SP);
    std::set<std::string> Direct, AddrTaken;
    std::set<std::pair<int64_t, std::string>> Virt;
    std::set<std::string> Indirect;
    std::set<const GlobalVariable *> Loads, Stores, Refs;
    int64_t PtrToIntEscapes = 0, OrderedPtrCmp = 0;
    json::Array P2ILocs;
    for (const Instruction &I : instructions(F)) {
      if (auto *CB = dyn_cast<CallBase>(&I)) {
        if (isa<DbgInfoIntrinsic>(CB)) continue;
        const Value *Callee = CB->getCalledOperand();
        const Value *SC = Callee->stripPointerCasts();
        if (auto *GA = dyn_cast<GlobalAlias>(SC))
          if (const GlobalObject *GO = GA->getAliaseeObject()) SC = GO;
        if (auto *CF = dyn_cast<Function>(SC)) {
          if (!CF->isIntrinsic() || CF->getName().startswith("llvm.mem"))
            Direct.insert(CF->getName().str());
        } else if (!isa<InlineAsm>(SC)) {
          // virtual: callee = load (gep (load obj), slot)
          bool IsVirt = false;
          if (auto *L = dyn_cast<LoadInst>(SC)) {
            const Value *P = L->getPointerOperand()->stripPointerCasts();
            int64_t Slot = 0;
            const Value *VT = P;
            if (auto *G = dyn_cast<GetElementPtrInst>(P)) {
              if (G->getNumIndices() == 1)
                if (auto *CI = dyn_cast<ConstantInt>(G->getOperand(1))) {
                  Slot = CI->getSExtValue();
                  VT = G->getPointerOperand()->stripPointerCasts();
                }
            }
            if (auto *L2 = dyn_cast<LoadInst>(VT)) {
              // the vtable pointer is loaded from the object
              (void)L2;
              IsVirt = true;
              Virt.insert({Slot, sigOf(CB->getFunctionType())});
            }
          }
          if (!IsVirt) Indirect.insert(sigOf(CB->getFunctionType()));
        }
        // function pointers passed as arguments
        for (const Use &U : CB->args()) {
          std::set<const GlobalVariable *> G;
          std::set<const Function *> Fs;
          collectGlobals(U.get()->stripPointerCasts(), G, Fs);
          for (auto *Fn : Fs) AddrTaken.insert(Fn->getName().str());
          for (auto *Gv : G) Refs.insert(Gv);
        }
        continue;
      }
      if (auto *L = dyn_cast<LoadInst>(&I)) {
        const Value *P = stripCasts(L->getPointerOperand());
        if (auto *GV = dyn_cast<GlobalVariable>(P)) Loads.insert(GV);
        continue;
      }
      if (auto *S = dyn_cast<StoreInst>(&I)) {
        const Value *P = stripCasts(S->getPointerOperand());
        if (auto *GV = dyn_cast<GlobalVariable>(P)) Stores.insert(GV);
        std::set<const GlobalVariable *> G;
        std::set<const Function *> Fs;
        collectGlobals(S->getValueOperand()->stripPointerCasts(), G, Fs);
        for (auto *Fn : Fs) AddrTaken.insert(Fn->getName().str());
        for (auto *Gv : G) Refs.insert(Gv);
        continue;
      }
      if (auto *RMW = dyn_cast<AtomicRMWInst>(&I)) {
        if (auto *GV = dyn_cast<GlobalVariable>(stripCasts(RMW->getPointerOperand())))
          Stores.insert(GV);
        continue;
      }
      if (auto *CX = dyn_cast<AtomicCmpXchgInst>(&I)) {
        if (auto *GV = dyn_cast<GlobalVariable>(stripCasts(CX->getPointerOperand())))
          Stores.insert(GV);
        continue;
      }
      if (auto *P2I = dyn_cast<PtrToIntInst>(&I)) {
        bool OnlyDiff = !P2I->use_empty();
        for (const User *U : P2I->users()) {
          auto *BO = dyn_cast<BinaryOperator>(U);
          if (!BO || BO->getOpcode() != Instruction::Sub) {
            OnlyDiff = false;
            break;
          }
          const Value *O = BO->getOperand(0) == P2I ? BO->getOperand(1) : BO->getOperand(0);
          if (!isa<PtrToIntInst>(O)) {
            OnlyDiff = false;
            break;
          }
        }
        if (!OnlyDiff) {
          ++PtrToIntEscapes;
          if (const DebugLoc &DL = I.getDebugLoc())
            if (auto *Sc = dyn_cast_or_null<DIScope>(DL.getScope()))
              if (P2ILocs.size() < 8)
                P2ILocs.push_back(pathOf(Sc->getDirectory(), Sc->getFilename()) + ":" +
                                  std::to_string(DL.getLine()));
        }
        continue;
      }
      if (auto *IC = dyn_cast<ICmpInst>(&I)) {
        if (IC->getOperand(0)->getType()->isPointerTy() && IC->isRelational()) {
          ++OrderedPtrCmp;
          if (const DebugLoc &DL = I.getDebugLoc())
            if (auto *Sc = dyn_cast_or_null<DIScope>(DL.getScope()))
              if (P2ILocs.size() < 8)
                P2ILocs.push_back(pathOf(Sc->getDirectory(), Sc->getFilename()) + ":" +
                                  std::to_string(DL.getLine()));
        }
        continue;
      }
      // any other instruction operand that is a global / function constant
      for (const Use &U : I.operands()) {
        std::set<const GlobalVariable *> G;
        std::set<const Function *> Fs;
        collectGlobals(U.get(), G, Fs);
        for (auto *Fn : Fs) AddrTaken.insert(Fn->getName().str());
        for (auto *Gv : G) Refs.insert(Gv);
      }
    }
    auto namesOf = [](const std::set<const GlobalVariable *> &S) {
      json::Array A;
      for (auto *G : S) A.push_back(G->getName().str());
      return A;
    };
    json::Array D, AT, V, IN;
    for (auto &S : Direct) D.push_back(S);
    for (auto &S : AddrTaken) AT.push_back(S);
    for (auto &P : Virt) V.push_back(json::Array{P.first, P.second});
    for (auto &S : Indirect) IN.push_back(S);
    if (!D.empty()) JF["calls"] = std::move(D);
    if (!AT.empty()) JF["addr"] = std::move(AT);
    if (!V.empty()) JF["virt"] = std::move(V);
    if (!IN.empty()) JF["ind"] = std::move(IN);
    if (!Loads.empty()) JF["gload"] = namesOf(Loads);
    if (!Stores.empty()) JF["gstore"] = namesOf(Stores);
    if (!Refs.empty()) JF["gref"] = namesOf(Refs);
    if (PtrToIntEscapes) JF["p2i"] = PtrToIntEscapes;
    if (OrderedPtrCmp) JF["pcmp"] = OrderedPtrCmp;
    if (!P2ILocs.empty()) JF["ploc"] = std::move(P2ILocs);
    Fns[F.getName().str()] = std::move(JF);
  }
  Root["functions"] = std::move(Fns);

  json::Object Aliases;
  for (const GlobalAlias &GA : M->aliases())
    if (const GlobalObject *GO = GA.getAliaseeObject())
      Aliases[GA.getName().str()] = GO->getName().str();
  Root["aliases"] = std::move(Aliases);

  // global constructors
  json::Array Ctors;
  if (auto *GC = M->getNamedGlobal("llvm.global_ctors"))
    if (GC->hasInitializer())
      if (auto *A = dyn_cast<ConstantArray>(GC->getInitializer()))
        for (unsigned I = 0; I < A->getNumOperands(); ++I)
          if (auto *S = dyn_cast<ConstantStruct>(A->getOperand(I)))
            if (auto *F = dyn_cast<Function>(S->getOperand(1)->stripPointerCasts()))
              Ctors.push_back(F->getName().str());
  Root["global_ctors"] = std::move(Ctors);

  std::error_code EC;
  raw_fd_ostream OS(argv[2], EC);
  if (EC) {
    errs() << "cannot write " << argv[2] << "\n";
    return 2;
  }
  OS << json::Value(std::move(Root));
  return 0;
}
