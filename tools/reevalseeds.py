#!/usr/bin/env python3
"""Re-evaluates the stored seeded changes (seeded/<id>/patch.diff) against the
*current* checks.  Development aid: works on scratch copies of /repo (like the
mutation self-test) so several seeds can be evaluated at once and /repo is
never touched; the result updates meta.json["checks"/"detected_by"].  The
recorded procedure for a new seed (tools/evalseed.py) applies the patch to
/repo itself and undoes it.

usage: tools/reevalseeds.py [--jobs N] [--props C01,C02] [seed-id-prefix...]
"""
import json, os, re, shutil, subprocess, sys, tempfile, time
from concurrent.futures import ThreadPoolExecutor

V = os.path.dirname(os.path.dirname(os.path.abspath(__file__)))
sys.path.insert(0, V)
from verif import selftest  # noqa: E402

jobs, only, props = 3, [], None
it = iter(sys.argv[1:])
for a in it:
    if a == "--jobs":
        jobs = int(next(it))
    elif a == "--props":
        props = next(it).split(",")
    else:
        only.append(a)
man = json.load(open(os.path.join(V, "MANIFEST.json")))
pids = [c["property_id"] for c in man["checks"] if not props or c["property_id"] in props]


def one(sid):
    d = os.path.join(V, "seeded", sid)
    tmp = tempfile.mkdtemp(prefix="verif-seed-")
    res = {}
    try:
        root = os.path.join(tmp, "repo")
        selftest.make_copy(root)
        r = subprocess.run("patch -p1 -s < %s" % os.path.join(d, "patch.diff"), shell=True, cwd=root,
                           stdout=subprocess.PIPE, stderr=subprocess.STDOUT, text=True)
        if r.returncode != 0:
            return sid, {"apply_error": r.stdout[-300:]}
        env = dict(os.environ, VERIF_REPO=root, VERIF_EVIDENCE_DIR=os.path.join(tmp, "ev"),
                   VERIF_CACHE_DIR=os.path.join(tmp, "cache"))
        for p in pids:
            t0 = time.time()
            r = subprocess.run([sys.executable, "-m", "verif.check", p, "--tier", "quick"], cwd=V, env=env,
                               stdout=subprocess.PIPE, stderr=subprocess.STDOUT, text=True)
            viol = [l.strip()[:400] for l in r.stdout.splitlines() if l.strip().startswith("violation:")]
            res[p] = {"exit": r.returncode, "violations": viol[:6], "wall_s": round(time.time() - t0, 1)}
            if r.returncode == 2:
                res[p]["broken"] = [l.strip()[:300] for l in r.stdout.splitlines() if "ANALYSIS-BROKEN" in l][:3]
    finally:
        shutil.rmtree(tmp, ignore_errors=True)
    return sid, res


seeds = sorted(s for s in os.listdir(os.path.join(V, "seeded"))
               if os.path.exists(os.path.join(V, "seeded", s, "patch.diff")) and
               (not only or any(s.startswith(o) for o in only)))
with ThreadPoolExecutor(jobs) as ex:
    for sid, res in ex.map(one, seeds):
        mp = os.path.join(V, "seeded", sid, "meta.json")
        meta = json.load(open(mp)) if os.path.exists(mp) else {"seed": sid}
        if "apply_error" in res:
            print(sid, "PATCH DOES NOT APPLY", res["apply_error"])
            continue
        if not props:
            meta["checks"] = res
        else:
            meta.setdefault("checks", {}).update(res)
        meta["detected_by"] = sorted(k for k, v in meta["checks"].items() if v["exit"] == 1)
        meta["broken_in"] = sorted(k for k, v in meta["checks"].items() if v["exit"] == 2)
        meta["detected_by_attacked_property"] = meta["checks"].get(meta.get("property"), {}).get("exit") == 1
        json.dump(meta, open(mp, "w"), indent=1)
        rules = sorted({m.group(1) for k in meta["detected_by"] for v in meta["checks"][k]["violations"]
                        for m in [re.search(r"\[(\w[\w-]*)\]", v)] if m})
        print("%-48s attacked=%s detected_by=%s rules=%s broken=%s" % (sid, meta.get("property"), meta["detected_by"], rules,
                                                                     meta["broken_in"]))
