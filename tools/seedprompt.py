#!/usr/bin/env python3
"""prints the prompt for one seeding sub-agent: tools/seedprompt.py <worktree> <property id> [extra hint]"""
import json, sys, os
V = os.path.dirname(os.path.dirname(os.path.abspath(__file__)))
wt, pid = sys.argv[1], sys.argv[2]
hint = sys.argv[3] if len(sys.argv) > 3 else ""
p = [json.loads(l) for l in open(os.path.join(V, "properties.jsonl")) if json.loads(l)["id"] == pid][0]
a = p["anchors"]
txt = "**%s — %s**\n\nStatement: %s\n\nQuantified over: %s\n\nWhy the existing tests cannot settle it: %s\n\nWhere it lives (files): %s\n\nMechanisms it relies on:\n%s\n\nObserve at: %s\n" % (
    p["id"], p["title"], p["statement"], p["quantifier"]["text"], p["why_tests_cant"], ", ".join(a["files"]),
    "\n".join("* %s — %s" % (m["name"], m["where"]) for m in a["mechanism"]), "; ".join(a["observe_at"]))
tmpl = "refactor_prompt.md" if os.environ.get("SEED_KIND") == "refactor" else "seed_prompt.md"
s = open(os.path.join(V, "tools", tmpl)).read().replace("{WT}", wt).replace("{PROPERTY}", txt)
if hint:
    s += "\n## Additional steer for this run\n" + hint + "\n"
print(s)
