#!/usr/bin/env python3
"""Confirm and evaluate one seeded change produced by an independent sub-agent.

usage: tools/evalseed.py <worktree> <property id> <seed id>

1. confirms in the agent's scratch worktree: the patch is source-only, the
   patched tree builds, the pinned suite passes (183 + 4, same 2 known
   failures), the demo exits 0 against the unchanged library (/repo/_build)
   and non-zero against the patched one;
2. stores patch.diff, the demo and meta.json under /verif/seeded/<seed id>/;
3. applies the patch to /repo, runs every claimed property's quick check
   (not only the attacked one), records which report a violation, and undoes
   the patch (git checkout) straight afterwards.
"""
import json, os, re, shutil, subprocess, sys, time

wt, pid, sid = sys.argv[1], sys.argv[2], sys.argv[3]
NOAPPLY = "--no-apply" in sys.argv   # store + confirm only; evaluate with tools/reevalseeds.py
V = "/verif"
out = os.path.join(V, "seeded", sid)
so = os.path.join(wt, "seed_out")


def sh(cmd, cwd=None, timeout=3600):
    r = subprocess.run(cmd, shell=True, cwd=cwd, stdout=subprocess.PIPE, stderr=subprocess.STDOUT, text=True,
                       timeout=timeout)
    return r.returncode, r.stdout


meta = {"seed": sid, "property": pid, "confirmed": {}}
# -- 1. confirm in the scratch worktree --------------------------------------
rc, diff = sh("git -C %s diff -- src" % wt)
files = re.findall(r"^\+\+\+ b/(.*)$", diff, re.M)
meta["files_changed"] = files
meta["confirmed"]["source_only"] = bool(files) and all(f.startswith("src/draco/") and "_test" not in f for f in files)
rc, o = sh("cmake --build %s/_build -j16 2>&1 | tail -2" % wt)
meta["confirmed"]["builds"] = rc == 0
rc, o = sh("./draco_tests 2>&1 | tail -8", cwd=wt + "/_build")
m = re.search(r"\[  PASSED  \] (\d+) tests", o)
failed = sorted(x for x in set(re.findall(r"\[  FAILED  \] (\S+)", o)) if not x.isdigit())
rc2, o2 = sh("./draco_factory_tests 2>&1 | tail -3", cwd=wt + "/_build")
m2 = re.search(r"\[  PASSED  \] (\d+) tests", o2)
meta["confirmed"]["tests"] = {"draco_tests_passed": int(m.group(1)) if m else None, "failed": failed,
                              "factory_passed": int(m2.group(1)) if m2 else None}
meta["confirmed"]["suite_ok"] = bool(m and int(m.group(1)) == 183 and m2 and int(m2.group(1)) == 4 and
                                     set(failed) <= {"ObjDecoderTest.TestObjDecodingAll", "ObjEncoderTest.TestObjEncodingAll"})
demo = os.path.join(so, "demo.cc")
if os.path.exists(demo):
    extra = ""
    rs = os.path.join(so, "run_demo.sh")
    rs_cmds = "\n".join(l for l in (open(rs).read().splitlines() if os.path.exists(rs) else []) if not l.lstrip().startswith("#"))
    if "-fsanitize" in rs_cmds:
        extra = " ".join(sorted(set(re.findall(r"-fsanitize=[\w,]+", rs_cmds))))
    def run_demo(lib, inc):
        exe = "/tmp/seed/_demo_%s" % sid
        rc, o = sh("g++ -std=gnu++17 -O1 %s -I%s/src -I%s %s %s -lpthread -o %s" % (extra, inc[0], inc[1], demo, lib, exe))
        if rc != 0:
            return None, o[-600:]
        rc, o = sh(exe, timeout=900)
        os.remove(exe)
        return rc, o[-600:]
    a = run_demo("/repo/_build/libdraco.a", ("/repo", "/repo/_build"))
    b = run_demo(wt + "/_build/libdraco.a", (wt, wt + "/_build"))
    meta["confirmed"]["demo_unchanged_exit"] = a[0]
    meta["confirmed"]["demo_changed_exit"] = b[0]
    meta["confirmed"]["demo_changed_tail"] = (b[1] or "")[-300:]
    meta["confirmed"]["demo_ok"] = a[0] == 0 and b[0] not in (0, None)
else:
    meta["confirmed"]["demo_ok"] = False
# -- 2. store ---------------------------------------------------------------------
os.makedirs(out, exist_ok=True)
open(os.path.join(out, "patch.diff"), "w").write(diff)
for f in ("demo.cc", "run_demo.sh", "notes.md", "gen.cc"):
    p = os.path.join(so, f)
    if os.path.exists(p):
        shutil.copy(p, os.path.join(out, f))
# -- 3. run the checks against the change ---------------------------------------------
if NOAPPLY:
    nt = os.path.join(so, "notes.md")
    if os.path.exists(nt):
        ls = [l.strip() for l in open(nt).read().splitlines() if l.strip() and not l.startswith("#")]
        meta["summary"] = ls[0][:400] if ls else ""
    json.dump(meta, open(os.path.join(out, "meta.json"), "w"), indent=1)
    print(json.dumps(meta["confirmed"], indent=1)[:1200])
    sys.exit(0)
rc, o = sh("git -C /repo status --porcelain -- src | head -3")
if o.strip():
    print("refusing: /repo/src has local modifications"); sys.exit(2)
rc, o = sh("git -C /repo apply %s" % os.path.join(out, "patch.diff"))
res = {}
try:
    if rc != 0:
        meta["apply_error"] = o[-400:]
    else:
        man = json.load(open(os.path.join(V, "MANIFEST.json")))
        ev = os.path.join("/tmp/seed", "_ev_" + sid)
        env = "VERIF_EVIDENCE_DIR=%s VERIF_CACHE_DIR=%s " % (ev, os.path.join("/tmp/seed", "_cache_" + sid))
        for c in man["checks"]:
            t0 = time.time()
            rc, o = sh(env + c["quick_cmd"], cwd=V)
            viol = [l.strip()[:400] for l in o.splitlines() if l.strip().startswith("violation:")]
            res[c["property_id"]] = {"exit": rc, "violations": viol[:6], "wall_s": round(time.time() - t0, 1)}
            print(c["property_id"], rc, len(viol))
        shutil.rmtree(ev, ignore_errors=True)
        shutil.rmtree(os.path.join("/tmp/seed", "_cache_" + sid), ignore_errors=True)
finally:
    sh("git -C /repo checkout -- .")
meta["checks"] = res
meta["detected_by"] = sorted(k for k, v in res.items() if v["exit"] == 1)
meta["detected_by_attacked_property"] = res.get(pid, {}).get("exit") == 1
notes = os.path.join(so, "notes.md")
meta["needs_to_manifest"] = ""
meta["what_i_ran"] = ("cmake --build + ./draco_tests + ./draco_factory_tests in the scratch worktree; demo compiled against "
                      "/repo/_build/libdraco.a (unchanged) and the worktree's libdraco.a (changed); git -C /repo apply patch.diff; "
                      "every MANIFEST quick_cmd; git -C /repo checkout -- .")
json.dump(meta, open(os.path.join(out, "meta.json"), "w"), indent=1)
print(json.dumps({k: meta[k] for k in ("confirmed", "detected_by")}, indent=1)[:1500])
