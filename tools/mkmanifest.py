#!/usr/bin/env python3
"""Regenerates MANIFEST.json from the tables below (single source of truth)."""
import json, os
V = os.path.dirname(os.path.dirname(os.path.abspath(__file__)))
CLAIMS = json.load(open(os.path.join(V, "rules", "claims.json")))
props = [json.loads(l)["id"] for l in open(os.path.join(V, "properties.jsonl"))]
checks, na = [], []
for pid in props:
    c = CLAIMS.get(pid)
    if c is None or "not_applicable" in c:
        na.append({"property_id": pid, "reason": (c or {}).get("not_applicable", "check not built yet")})
        continue
    checks.append({
        "property_id": pid,
        "quick_cmd": "python3 -m verif.check %s --tier quick" % pid,
        "thorough_cmd": "python3 -m verif.check %s --tier thorough" % pid,
        "evidence_file": "/verif/evidence/%s.json" % pid,
        "replay_cmd_template": "python3 -m verif.show {path}",
        "engine": c["engine"],
        "level_claimed": {"category": c.get("category", "other"), "text": c["text"],
                          "design_ref": c["design_ref"]},
        "level_note": c["note"],
        "technique": c["technique"],
    })
m = {
 "version": 1,
 "setup_cmd": "./tools/build.sh",
 "hooks": {"guard": "DRACO_VERIF",
           "enable": "none: no check executes draco, so no hook exists; the guard name is reserved",
           "baseline_off_cmd": "cmake --build /repo/_build -j16 && cd /repo/_build && ./draco_tests && ./draco_factory_tests",
           "source_commits": [], "add_only": True},
 "engines": [
  {"name": "dfacts (E1)", "path": "tools/dfacts.cc",
   "serves_properties": [c["property_id"] for c in checks],
   "kind_free_text": "libTooling AST+CFG fact extractor over the compile database of /repo's current tree; rules in Python under verif/"},
  {"name": "dreach (E2)", "path": "tools/dreach.cc",
   "serves_properties": [c["property_id"] for c in checks if "E2" in c["engine"]],
   "kind_free_text": "LLVM-14 based whole-library IR fact extractor: static-storage objects, vtables, call edges, global effects, pointer-as-data instructions"},
  {"name": "witness TUs (E3)", "path": "verif/ledger.py",
   "serves_properties": [c["property_id"] for c in checks if "E3" in c["engine"]],
   "kind_free_text": "generated static_assert translation units compiled with clang++ -fsyntax-only against /repo's headers"},
 ],
 "checks": checks,
 "not_applicable": na,
 "notes": "Static analysis only: every check re-derives the compile database from /repo's working tree, re-extracts facts when the tree hash changed, and decides structural clauses; exit 2 = analysis broken (anchor vanished / control silent)."
}
json.dump(m, open(os.path.join(V, "MANIFEST.json"), "w"), indent=1)
print("claimed:", [c["property_id"] for c in checks])
