#!/usr/bin/env python3
"""Regenerates the generated tables of DESIGN.md (between BEGIN/END markers)
from selftest/*.json, selftest/last_results.json and seeded/*/meta.json."""
import json, os, re
V = os.path.dirname(os.path.dirname(os.path.abspath(__file__)))
muts = []
for fn in sorted(os.listdir(os.path.join(V, "selftest"))):
    if fn.endswith(".json") and fn != "last_results.json":
        muts += json.load(open(os.path.join(V, "selftest", fn)))
res = {}
lr = os.path.join(V, "selftest", "last_results.json")
if os.path.exists(lr):
    res = {r["id"]: r["outcome"] for r in json.load(open(lr))["results"]}
lines = ["| id | property | edit to /repo (single change; compiles) | reported by | last full self-test run |",
         "|----|----------|------------------------------------------|-------------|-------------------------|"]
def key(m):
    mm = re.match(r"([A-Z]+)(\d+)(.*)", m["id"])
    return (m["property"], mm.group(1), int(mm.group(2)), mm.group(3))
for m in sorted(muts, key=key):
    exp = "must stay **silent** (behaviour-preserving)" if m.get("equivalent") else (m.get("expect_rule", "?") + (" in `%s`" % m["expect_function"].replace("draco::", "") if m.get("expect_function") else ""))
    lines.append("| %s | %s | %s | %s | %s |" % (m["id"], m["property"], m["what"].replace("|", "\\|"), exp, res.get(m["id"], "—")))
n_m = sum(1 for m in muts if not m.get("equivalent")); n_e = sum(1 for m in muts if m.get("equivalent"))
det = sum(1 for m in muts if not m.get("equivalent") and res.get(m["id"]) == "detected")
sil = sum(1 for m in muts if m.get("equivalent") and res.get(m["id"]) == "silent")
selftest = "%d mutants (%d detected in the last full run) and %d behaviour-preserving edits (%d silent).\n\n" % (n_m, det, n_e, sil) + "\n".join(lines)
sd = os.path.join(V, "seeded")
lines = ["| seed | property attacked | change (author: independent sub-agent) | needs to manifest | confirmed (builds / 187 tests pass / demo 0→≠0) | reported by |",
         "|------|-------------------|------------------------------------------|-------------------|-----------------------------------------------|-------------|"]
if os.path.isdir(sd):
    for d in sorted(os.listdir(sd)):
        mp = os.path.join(sd, d, "meta.json")
        if not os.path.exists(mp):
            continue
        m = json.load(open(mp))
        c = m.get("confirmed", {})
        nt = os.path.join(sd, d, "notes.md")
        if os.path.exists(nt):
            ls = open(nt).read().splitlines()
            body = [l.strip() for l in ls if l.strip() and not l.startswith("#")]
            if not m.get("summary") and body:
                m["summary"] = re.sub(r"^\**(one-sentence )?summary:?\**:?\s*", "", body[0], flags=re.I)[:260]
            if not m.get("needs_to_manifest"):
                for i, l in enumerate(ls):
                    if re.search(r"manifest|trigger|needs", l, re.I) and (l.startswith("#") or l.startswith("**") or re.match(r"^\(?[a-e]\)", l.strip())):
                        para = []
                        for l2 in ls[i + 1:]:
                            if l2.startswith("#") and para:
                                break
                            if l2.strip():
                                para.append(l2.strip())
                            elif para:
                                break
                        if para:
                            m["needs_to_manifest"] = " ".join(para)[:260]
                            break
        conf = "%s / %s / %s" % ("yes" if c.get("builds") else "NO", "yes" if c.get("suite_ok") else "NO", "yes" if c.get("demo_ok") else "NO")
        rb = ", ".join("%s (%s)" % (k, "; ".join(sorted({re.search(r"\[(\w[\w-]*)\]", v).group(1) for v in m["checks"][k]["violations"] if re.search(r"\[(\w[\w-]*)\]", v)}))) for k in m.get("detected_by", [])) or "**missed**"
        lines.append("| %s | %s | %s | %s | %s | %s |" % (d, m.get("property"), (m.get("summary") or "").replace("|", "\\|").replace("\n", " "), (m.get("needs_to_manifest") or "").replace("|", "\\|").replace("\n", " "), conf, rb))
seeded = "\n".join(lines)
p = os.path.join(V, "DESIGN.md")
s = open(p).read()
rd = os.path.join(V, "refactors")
lines = ["| id | files changed | builds / suite | checks that raised an alarm | analysis broken |", "|----|---------------|----------------|------------------------------|-----------------|"]
if os.path.isdir(rd):
    for d in sorted(os.listdir(rd)):
        mp = os.path.join(rd, d, "meta.json")
        if os.path.exists(mp):
            m = json.load(open(mp))
            lines.append("| %s | %d | %s / %s | %s | %s |" % (d, len(m.get("files_changed", [])), "yes" if m.get("builds") else "NO",
                         "yes" if m.get("suite_ok") else "NO", ", ".join(m.get("alarms", [])) or "none", ", ".join(m.get("broken", [])) or "none"))
refactors = "\n".join(lines)
for name, body in (("selftest", selftest), ("seeded", seeded), ("refactors", refactors)):
    b, e = "<!-- BEGIN:%s -->" % name, "<!-- END:%s -->" % name
    if b in s:
        s = s[:s.index(b) + len(b)] + "\n" + body + "\n" + s[s.index(e):]
open(p, "w").write(s)
print("mutants", n_m, "equivalent", n_e)
