"""MINCONSUME / G1JUSTIFY: an input-relative count guard `count > remaining/k`
(k > 1) rejects every stream whose items take fewer than k bytes each.  It is
justified only if every use of the count that the guard dominates consumes at
least k input bytes per item: a loop bounded by the count whose every
iteration reads >= k bytes (checked reads; nested constant-trip loops are
multiplied out).  A count handed to a callee whose consumption is not
per-item (an entropy-coded block) does not justify anything.
"""
from .facts import walk, strip_targs
from .cfgutil import dominating_edges
from .taint import is_src, REM, FLIP

SIZES = {"char": 1, "signed char": 1, "unsigned char": 1, "bool": 1, "short": 2, "unsigned short": 2,
         "int": 4, "unsigned int": 4, "float": 4, "long": 8, "unsigned long": 8, "double": 8,
         "long long": 8, "unsigned long long": 8}


def read_cost(eng, n):
    """Minimum number of input bytes a successful call consumes."""
    base = strip_targs(n.get("fn") or "")
    if base == "draco::DecoderBuffer::Decode":
        pt = n.get("pt") or []
        if len(pt) == 1:
            t = pt[0].replace("*", "").replace("const", "").strip()
            return SIZES.get(t, 0)
        if len(pt) == 2:
            a = n.get("args", [None, None])[1]
            while isinstance(a, dict) and a.get("k") == "icast" and "v" not in a:
                a = a.get("e")
            return a.get("v", 0) if isinstance(a, dict) and isinstance(a.get("v"), int) else 0
        return 0
    if base == "draco::DecodeVarint":
        return 1
    return 0


class MinConsume:
    def __init__(self, eng):
        self.eng = eng
        self.memo = {}

    def fn_cost(self, fn, depth=0):
        """min bytes consumed on any entry -> success-return path."""
        if fn.key in self.memo:
            return self.memo[fn.key]
        self.memo[fn.key] = 0            # recursion guard
        if depth > 6:
            return 0
        costs = self.block_costs(fn, depth)
        from .cfgutil import success_returns
        targets = {b.id for b, ev, c in success_returns(fn)}
        if not targets:
            targets = {fn.exit}
        best = self.min_path(fn, fn.entry, targets, costs, set(fn.blocks))
        self.memo[fn.key] = best if best is not None else 0
        return self.memo[fn.key]

    def block_costs(self, fn, depth=0):
        costs = {b: 0 for b in fn.blocks}
        for n, b, rk, ev in fn.calls():
            if n.get("k") != "call" or n.get("use") not in ("cond", "ret", "init", "assign"):
                continue
            c = read_cost(self.eng, n)
            if c == 0 and strip_targs(n.get("fn") or "") not in ("draco::DecoderBuffer::Decode", "draco::DecodeVarint"):
                ts = [t for t in self.eng.F.targets(n) if t.key in self.eng.reads_stream]
                if ts and n.get("use") in ("cond", "ret"):
                    c = min(self.fn_cost(t, depth + 1) for t in ts)
            costs[b] = costs.get(b, 0) + c
        return costs

    def min_path(self, fn, start, targets, costs, allowed, skip_back_to=None):
        """Bellman-Ford style min cost from start to any target inside allowed,
        ignoring back edges (each block counted once)."""
        doms = fn.doms()
        dist = {start: costs.get(start, 0)}
        order = [start]
        changed = True
        rounds = 0
        while changed and rounds < len(fn.blocks) + 2:
            changed = False
            rounds += 1
            for u in list(dist):
                for v in fn.succs(u):
                    if v not in allowed:
                        continue
                    if v in doms.get(u, ()):          # back edge
                        continue
                    nd = dist[u] + costs.get(v, 0)
                    if v not in dist or nd < dist[v]:
                        dist[v] = nd
                        changed = True
        vals = [dist[t] for t in targets if t in dist]
        return min(vals) if vals else None

    def loop_iter_cost(self, fn, header, body, latches, _depth=0):
        """min bytes consumed by one iteration of the loop (header -> latch).
        A nested loop with a constant trip count is collapsed into its header
        with cost trip * (its own iteration cost); other nested loops cost 0."""
        costs = dict(self.block_costs(fn))
        nested = sorted([(h2, b2, l2) for h2, b2, l2 in fn.loops()
                         if h2 != header and h2 in body and b2 < body], key=lambda x: -len(x[1]))
        done = set()
        ft = self.eng.ft.get(fn.key)
        for h2, b2, l2 in nested:
            if h2 in done:
                continue              # inside an already collapsed outer nested loop
            trip = 0
            blk = fn.blocks[h2]
            if blk.cond is not None and ft is not None:
                for l, op, r in ft.atoms(blk.cond, True):
                    c = ft.const_of(r)
                    if c is not None and op in ("<", "<=") and 0 < c <= 64:
                        trip = c if op == "<" else c + 1
            c2 = self.loop_iter_cost(fn, h2, b2, l2, _depth + 1) if (trip and _depth < 3) else 0
            for bb in b2:
                costs[bb] = 0
                done.add(bb)
            costs[h2] = trip * c2
        inner = [s_ for s_ in fn.succs(header) if s_ in body]
        best = None
        allowed = (body - {header}) | set(latches)
        for s_ in inner:
            if s_ == header:
                continue
            start_cost = self.min_path(fn, s_, set(latches), costs, allowed)
            if start_cost is not None:
                best = start_cost if best is None else min(best, start_cost)
        return (best or 0) + costs.get(header, 0)


def scale_of(ft, side_count, side_rem):
    """For an atom  count REL rem-expression: the k in `count > remaining / k`
    (k*count > remaining, count > remaining/k, count/k' > remaining)."""
    k_num, k_den = 1, 1

    def strip(t):
        while isinstance(t, dict) and t.get("k") in ("icast", "cast", "copy") and "v" not in t:
            t = t.get("e")
        return t
    t = strip(side_rem)
    if isinstance(t, dict) and t.get("k") == "bin" and t.get("op") in ("/", "*"):
        c = ft.const_of(t.get("r")) if ft.const_of(t.get("r")) is not None else ft.const_of(t.get("l"))
        if c:
            if t["op"] == "/":
                k_num *= c
            else:
                k_den *= c
    t = strip(side_count)
    if isinstance(t, dict) and t.get("k") == "bin" and t.get("op") in ("/", "*"):
        c = ft.const_of(t.get("r")) if ft.const_of(t.get("r")) is not None else ft.const_of(t.get("l"))
        if c:
            if t["op"] == "*":
                k_num *= c
            else:
                k_den *= c
    return k_num / k_den


def find_guards(eng, fn):
    """[(block, passing_outcome, labels_of_count, k, condsrc)] for input-relative
    count guards whose failing edge is an error exit."""
    from .props.C11 import _is_error_block
    ft = eng.ft[fn.key]
    out = []
    for b in fn.blocks.values():
        if b.cond is None or len(b.succ) != 2 or b.id not in fn.reach_all():
            continue
        for oc in (True, False):
            fail = b.succ[0] if oc else b.succ[1]
            if fail is None or not _is_error_block(fn, fail):
                continue
            for l, op, r in ft.atoms(b.cond, oc):
                for side, other, o in ((l, r, op), (r, l, FLIP[op])):
                    if side is None or other is None or o not in (">", ">="):
                        continue
                    labs = {x for x in ft.labels(side, b.id) if is_src(x)}
                    if not labs:
                        # a count kept in an object (`point_cloud()->num_points()` set from the header earlier)
                        labs = {x for x in ft.labels(side, b.id) if x[0] == "field"}
                    if not labs or REM not in ft.labels(other, b.id):
                        continue
                    out.append((b, not oc, labs, scale_of(ft, side, other), b.condsrc))
    return out


def callee_item_cost(eng, mc, call, ai):
    """Per-item consumption of a callee that receives the count as argument ai: the cheapest iteration of its
    loops bounded by that parameter (a shared item loop such as DecodeRawFaces(count, read_functor)); 0 when the
    callee reads the stream but has no such loop (an entropy-coded block: consumption not per item); None when
    it cannot be determined."""
    from .sinks import _loop_conditions
    best = None
    for t in eng.F.targets(call):
        cft = eng.ft.get(t.key)
        if cft is None:
            return None, "callee not analysed"
        plab = ("param", ai)
        found = False
        for header, body, latches in t.loops():
            bl = set()
            for blk in _loop_conditions(t, header, body, latches):
                for l, op, r in cft.atoms(blk.cond, True):
                    bl |= cft.labels(l, blk.id) | cft.labels(r, blk.id)
            if plab in bl:
                found = True
                c = mc.loop_iter_cost(t, header, body, latches)
                best = c if best is None else min(best, c)
        if not found:
            return 0, "consumption not per item"
    if best is None:
        return None, "no callee body"
    return best, "item loop in the callee"


RAW_LEN_CALLS = {"draco::DecoderBuffer::Decode", "draco::DecoderBuffer::Advance", "draco::DecoderBuffer::Init",
                 "draco::DecoderBuffer::Peek", "memcpy", "std::memcpy"}
RAW_LEN_SHORT = {"read_init", "ans_read_init", "rans_read_init", "Init", "StartDecoding"}
try:
    from .core import load_table as _lt
    G1_ALLOW = _lt("c01.json").get("g1_allow", {})
except Exception:       # table optional
    G1_ALLOW = {}


def justify(eng, fn, guard, mc):
    """Returns (ok, detail).  Every use of the guarded count that the passing
    edge dominates must consume >= k bytes per item."""
    b, pass_oc, labs, k, src = guard
    ft = eng.ft[fn.key]
    succ = b.succ[0] if pass_oc else b.succ[1]
    uses = []
    for header, body, latches in fn.loops():
        if not fn.edge_dominates((b.id, succ), header):
            continue
        from .sinks import _loop_conditions
        bl = set()
        for blk in _loop_conditions(fn, header, body, latches):
            for l, op, r in ft.atoms(blk.cond, True):
                bl |= ft.labels(l, blk.id) | ft.labels(r, blk.id)
        if bl & labs:
            c = mc.loop_iter_cost(fn, header, body, latches)
            uses.append(("loop at %s" % fn.site(fn.blocks[header].tloc or ""), c))
    for n, cb, rk, ev in fn.calls():
        if not fn.edge_dominates((b.id, succ), cb):
            continue
        if strip_targs(n.get("fn") or "").startswith("std::"):
            continue
        for ai, a in enumerate(n.get("args", [])):
            if ft.labels(a, cb) & labs and eng.call_reads_stream(n):
                c, how = callee_item_cost(eng, mc, n, ai)
                if c is None:
                    continue          # undetermined (indirect consumption): neither justifies nor refutes
                uses.append(("count passed to %s at %s (%s)" % (
                    strip_targs(n.get("fn") or ""), fn.site(n.get("loc", "")), how), c))
    if k == 1:
        # a byte length: the value is the size operand of a raw consumption of the input after the guard
        for n, cb, rk, ev in fn.calls():
            base = strip_targs(n.get("fn") or "")
            short = base.rsplit("::", 1)[-1]
            if not (base in RAW_LEN_CALLS or short in RAW_LEN_SHORT):
                continue
            if not (fn.edge_dominates((b.id, succ), cb) or cb == succ):
                continue
            if any(ft.labels(a, cb) & labs for a in n.get("args", [])):
                return True, "scale 1: a byte length (size operand of %s)" % base.replace("draco::", "")
        bad = [(u, c) for u, c in uses if c < 1]
        if uses and not bad:
            return True, "scale 1 item count: every use consumes >= 1 byte per item: %s" % (
                "; ".join("%s: %d" % (u, c) for u, c in uses))
        var = None
        for lab in labs:
            info = ft.label_info.get(lab) or eng.label_info.get(lab) or {}
            var = var or info.get("var")
        akey = strip_targs(fn.cls or fn.base)
        if akey in G1_ALLOW:
            return True, "scale 1 item count, reviewed: " + G1_ALLOW[akey]
        return False, "`%s` compares an item count (not the size operand of any raw read) with the remaining " \
                      "bytes, and %s: entropy-coded or constant items take less than a byte each, so streams the " \
                      "writer produces are rejected" % (
                          src[:60], "; ".join("%s consumes >= %d" % (u, c) for u, c in bad) if bad else
                          "no per-item consumption of at least one byte follows in this function")
    if not uses:
        return True, "no item loop or consuming callee uses the count after the guard"
    bad = [(u, c) for u, c in uses if c < k]
    if bad:
        return False, "guard assumes >= %g bytes per item but %s" % (
            k, "; ".join("%s consumes >= %d" % (u, c) for u, c in bad))
    return True, "every use consumes >= %g bytes per item: %s" % (
        k, "; ".join("%s: %d" % (u, c) for u, c in uses))
