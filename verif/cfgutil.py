"""CFG-level helpers shared by the rules: success/error returns, dominating
condition edges, must-pass-through."""
from .facts import walk, strip_targs
from .dropped import _ret_class, ret_kind


def dominating_edges(fn, target_block):
    """[(block, outcome, cond_tree)] for every two-way condition whose
    `outcome` edge dominates target_block (outcome True = condition held).
    Switch edges are returned as (block, ('case', v) | 'default', cond)."""
    cache = fn.__dict__.setdefault("_domedges", {})
    if target_block in cache:
        return cache[target_block]
    out = []
    for b in fn.blocks.values():
        if b.cond is None:
            continue
        succ = b.succ
        if b.labels is not None:
            # switch: the target holds under the disjunction of the labels
            # whose successor can reach it, provided the switch dominates the
            # target and at least one other label cannot reach it
            if not fn.block_dominates(b.id, target_block) or b.id == target_block:
                continue
            reach_labs, other = [], 0
            for i, s_ in enumerate(succ):
                if s_ is None:
                    continue
                lab = b.labels[i] if i < len(b.labels) else None
                if target_block == s_ or target_block in fn.reachable(start=s_, removed_blocks={b.id}):
                    reach_labs.append(lab)
                else:
                    other += 1
            if not reach_labs or not other:
                continue
            cases_all = [l.get("case") for l in b.labels if isinstance(l, dict)]
            if all(isinstance(l, dict) for l in reach_labs):
                vals = tuple(l.get("case") for l in reach_labs)
                for v in vals:
                    out.append((b, ("case", v, None, vals), b.cond))
            else:
                out.append((b, ("default", cases_all), b.cond))
            continue
        if len(succ) != 2:
            continue
        t, f = succ
        if t is not None and t != f and fn.edge_dominates((b.id, t), target_block):
            out.append((b, True, b.cond))
        if f is not None and t != f and fn.edge_dominates((b.id, f), target_block):
            out.append((b, False, b.cond))
    cache[target_block] = out
    return out


def _strip_not(tree, outcome):
    while isinstance(tree, dict) and tree.get("k") == "un" and tree.get("op") == "!":
        tree = tree.get("e")
        outcome = not outcome
    while isinstance(tree, dict) and tree.get("k") == "icast":
        tree = tree.get("e")
    return tree, outcome


def status_var_error_edges(fn):
    """{decl id: [(block, outcome)]} edges on which a local Status/StatusOr
    variable is known NOT ok (cond `!v.ok()` true / `v.ok()` false)."""
    cache = fn.__dict__.get("_staterr")
    if cache is not None:
        return cache
    out = {}
    for b in fn.blocks.values():
        if b.cond is None or len(b.succ) != 2:
            continue
        tree, pos = _strip_not(b.cond, True)
        if not isinstance(tree, dict) or tree.get("k") != "call":
            continue
        fnname = strip_targs(tree.get("fn") or "")
        if fnname not in ("draco::Status::ok", "draco::StatusOr::ok"):
            continue
        obj = tree.get("obj")
        while isinstance(obj, dict) and obj.get("k") in ("copy", "icast"):
            obj = obj.get("e")
        if not isinstance(obj, dict) or obj.get("k") != "var" or "d" not in obj:
            continue
        # pos==True: cond is v.ok() -> error on False edge; pos False: !v.ok()
        err_outcome = not pos
        out.setdefault(obj["d"], []).append((b.id, err_outcome))
    fn.__dict__["_staterr"] = out
    return out


def classify_return(fn, block, ev):
    """'ok' | 'fail' | ('call', node) | 'unknown' with edge knowledge for
    `return status_var;` under a dominating !ok() edge."""
    kind = ret_kind(fn.ret.get("t"))
    tree = ev.get("e")
    if kind is None:
        return "ok"
    c = _ret_class(tree, kind)
    if c != "unknown":
        return c
    # returned variable known to be an error here?
    t = tree
    while isinstance(t, dict) and t.get("k") in ("copy", "icast", "ctor"):
        if t.get("k") == "ctor":
            args = t.get("args") or []
            if len(args) != 1:
                break
            t = args[0]
            # StatusOr(const Status&) / StatusOr(Status&&)
            continue
        t = t.get("e")
    if isinstance(t, dict) and t.get("k") == "call" and \
            strip_targs(t.get("fn") or "") == "draco::StatusOr::status":
        t = t.get("obj")
        while isinstance(t, dict) and t.get("k") in ("copy", "icast"):
            t = t.get("e")
    if isinstance(t, dict) and t.get("k") == "var" and "d" in t:
        for (cb, outcome) in status_var_error_edges(fn).get(t["d"], []):
            succ = fn.blocks[cb].succ
            tgt = succ[0] if outcome else succ[1]
            if tgt is not None and fn.edge_dominates((cb, tgt), block.id):
                return "fail"
    return "unknown"


def success_returns(fn):
    """Return events that may report success: [(block, ev, class)]."""
    out = []
    reach = fn.reach_all()
    for b, ev in fn.returns():
        if b.id not in reach:
            continue
        c = classify_return(fn, b, ev)
        if c == "fail":
            continue
        out.append((b, ev, c))
    return out


def blocks_calling(fn, pred):
    """Block ids containing a call node for which pred(node) holds."""
    out = set()
    for n, b, kind, ev in fn.calls():
        if pred(n):
            out.add(b)
    return out


def status_fail_edges(fn):
    """Edges that only failing runs take in a function written in the `Status status = OkStatus(); if
    (status.ok()) status = Step(); ... return status;` style: the false edge of every `status.ok()` test on a
    Status local that the function returns.  Success-path analyses (must-pass, reset) leave them out."""
    cache = fn.__dict__.get("_status_fail_edges")
    if cache is not None:
        return cache
    returned = set()
    for b, ev in fn.returns():
        e = ev.get("e")
        while isinstance(e, dict) and e.get("k") in ("copy", "icast", "cast", "paren", "mat", "bind"):
            e = e.get("e")
        if isinstance(e, dict) and e.get("k") == "var" and "d" in e and "Status" in (e.get("t") or ""):
            returned.add(e["d"])
    out = set()
    if returned:
        for b in fn.blocks.values():
            if b.cond is None or len(b.succ) != 2 or b.labels is not None:
                continue
            tree, pos = _strip_not(b.cond, True)
            t = tree
            while isinstance(t, dict) and t.get("k") in ("copy", "icast", "cast", "paren"):
                t = t.get("e")
            if isinstance(t, dict) and t.get("k") == "call" and (t.get("fn") or "").endswith("Status::ok"):
                o = t.get("obj")
                while isinstance(o, dict) and o.get("k") in ("copy", "icast", "cast", "paren"):
                    o = o.get("e")
                if isinstance(o, dict) and o.get("k") == "var" and o.get("d") in returned:
                    fail = b.succ[1] if pos else b.succ[0]
                    if fail is not None and b.succ[0] != b.succ[1]:
                        out.add((b.id, fail))
    fn.__dict__["_status_fail_edges"] = out
    return out


def must_pass(fn, pass_blocks, assume_edges_removed=(), delegate=None):
    """Success returns reachable from entry without visiting pass_blocks.
    delegate(call_node) -> True when `return <call>` hands the obligation to
    a callee that itself must-passes. Returns list of offending (block, ev)."""
    bad = []
    reach = fn.reachable(removed_blocks=set(pass_blocks),
                         removed_edges=set(assume_edges_removed) | status_fail_edges(fn))
    for b, ev, c in success_returns(fn):
        if b.id in pass_blocks:
            continue
        if b.id not in reach:
            continue
        if isinstance(c, tuple) and delegate is not None and delegate(c[1]):
            continue
        bad.append((b, ev))
    # void function: falling off the end
    return bad


def is_this_call(n):
    return bool(n.get("objthis"))


def call_base(n):
    return strip_targs(n.get("fn") or "")


def reaches_call(F, fn, pred, depth=2, _seen=None):
    """Does fn (or a draco helper / lambda it calls, up to `depth` levels) contain a call with pred(node)?"""
    _seen = _seen if _seen is not None else set()
    if fn.key in _seen:
        return False
    _seen.add(fn.key)
    for n, b, rk, ev in fn.calls():
        if pred(n):
            return True
    if depth <= 0:
        return False
    for n, b, rk, ev in fn.calls():
        if n.get("k") != "call" or n.get("virt"):
            continue
        for t in F.targets(n):
            if "/draco/" in t.file or t.name.startswith("verif_control::"):
                if reaches_call(F, t, pred, depth - 1, _seen):
                    return True
    return False


def blocks_calling_deep(F, fn, pred, depth=2):
    """blocks of fn with a call satisfying pred directly or through helpers / lambdas (non-virtual, <= depth)"""
    out = set()
    for n, b, rk, ev in fn.calls():
        if pred(n):
            out.add(b)
        elif n.get("k") == "call" and not n.get("virt"):
            for t in F.targets(n):
                if ("/draco/" in t.file or t.name.startswith("verif_control::")) and t.key != fn.key and \
                        reaches_call(F, t, pred, depth - 1):
                    out.add(b)
    return out
