"""NESTBOUND: stream-controlled nesting of a self-owning structure is bounded.

`Metadata` owns its sub-metadata through unique_ptr, so destroying (or
copying) a chain nested n deep recurses n deep: a stream that nests far enough
overflows the call stack of the *caller* of the decoder, after or during a
"successful" decode.  For every function in Reach(decode) that attaches a
child (rules/c02.json "nest_attach_calls"):

  * a rejection (branch outcome that only reaches failing returns) compares a
    value D with a constant;
  * D is a *depth*: a parameter, or a field of a local work item, and the
    function contains `D + 1` (the value handed to the scheduled child - work
    stack push or recursive call);
  * the rejection dominates the attach call.

Decides that a per-nesting counter is compared with a constant before a child
is attached; does not decide that the constant suits the platform's stack.
"""
from .facts import walk, strip_targs
from .cfgutil import success_returns, _strip_not
from .primbound import _atoms, _const
from .taint import _tree_eq


def _strip(t):
    while isinstance(t, dict) and t.get("k") in ("icast", "cast", "copy", "paren") and "v" not in t:
        t = t.get("e")
    return t


def _is_depth_lvalue(t):
    t = _strip(t)
    if not isinstance(t, dict):
        return False
    if t.get("k") == "var" and "d" in t:
        return True
    if t.get("k") == "field":
        b = _strip(t.get("base"))
        return isinstance(b, dict) and b.get("k") == "var"
    return False


def check_fn(fn, attach_short, helper_keys=(), F=None):
    """-> (ok, detail, n attach sites); helper_keys: keys of lambdas / private helpers that attach without a
    guard of their own - a call to one of them is an attach site of the caller"""
    attach = [(n, b) for n, b, rk, ev in fn.calls()
              if strip_targs(n.get("fn") or "").rsplit("::", 1)[-1] == attach_short or
              (F is not None and helper_keys and any(t.key in helper_keys for t in F.targets(n)))]
    if not attach:
        return None
    succ_blocks = {b.id for b, ev, c in success_returns(fn)}
    incs = []
    for b, kind, tree, e in fn.roots():
        if tree is None:
            continue
        for n in walk(tree):
            if n.get("k") == "bin" and n.get("op") == "+" and _const(n.get("r")) == 1:
                incs.append(_strip(n.get("l")))
    # `const int depth = mp.level;` - a local that only ever holds the depth stands for it
    alias = {}
    for b, ev in fn.events():
        if ev["k"] == "decl" and "d" in (ev.get("var") or {}) and isinstance(ev.get("e"), dict):
            alias[ev["var"]["d"]] = _strip(ev["e"])

    def resolve(t):
        t = _strip(t)
        if isinstance(t, dict) and t.get("k") == "var" and t.get("d") in alias and "p" not in t:
            r = alias[t["d"]]
            if _is_depth_lvalue(r):
                return r
        return t
    incs = incs + [resolve(i) for i in incs]
    guards = []
    for cb in fn.blocks.values():
        if cb.cond is None or len(cb.succ) != 2 or cb.labels is not None:
            continue
        for oc in (True, False):
            tgt = cb.succ[0] if oc else cb.succ[1]
            if tgt is None or cb.succ[0] == cb.succ[1]:
                continue
            reach = fn.reachable(start=tgt) | {tgt}
            if reach & succ_blocks:
                continue
            for l, op, r in _atoms(cb.cond, oc):
                if op in (">", ">=") and _const(r) is not None and _is_depth_lvalue(l):
                    if any(_tree_eq(resolve(l), i) or _tree_eq(_strip(l), i) for i in incs):
                        guards.append((cb, oc, _strip(l)))
                if op in ("<", "<=") and _const(l) is not None and _is_depth_lvalue(r):
                    if any(_tree_eq(resolve(r), i) or _tree_eq(_strip(r), i) for i in incs):
                        guards.append((cb, oc, _strip(r)))
    for n, b in attach:
        ok = False
        for cb, oc, d in guards:
            keep = cb.succ[1] if oc else cb.succ[0]
            if keep is not None and fn.edge_dominates((cb.id, keep), b):
                ok = True
        if not ok:
            return False, "no rejection `depth > constant` (depth = a parameter / work-item field that is passed on as " \
                          "depth + 1) dominates the %s call at %s" % (attach_short, fn.site(n.get("loc", ""))), len(attach)
    return True, "a depth counter incremented per scheduled child is compared with a constant before every %s" % attach_short, len(attach)


def run_nestbound(ctx, rep, rule="NESTBOUND"):
    from .core import Obligation, DISCHARGED, VIOLATION, load_table
    F = ctx.F
    tab = load_table("c02.json")
    dec = set(ctx.reach("decode"))
    n = 0
    fired = False
    for short in tab.get("nest_attach_calls", []):
        # lambdas / file-local helpers that attach without a guard of their own hand the obligation to their callers
        helpers = set()
        rev = {}
        for k_, outs in F.callgraph().items():
            for o in outs:
                rev.setdefault(o, set()).add(k_)
        for fn in F.fns.values():
            cs = [F.fns[c] for c in rev.get(fn.key, ()) if c in F.fns]
            member_helper = bool(fn.cls) and cs and all(c.cls and strip_targs(c.cls) == strip_targs(fn.cls) for c in cs)
            if fn.key in dec and (fn.is_lambda or "(anonymous namespace)" in fn.name or member_helper):
                r = check_fn(fn, short)
                if r is not None and not r[0]:
                    helpers.add(fn.key)
        for fn in F.fns.values():
            is_ctl = fn.name.startswith("verif_control::nest_")
            if (fn.key not in dec and not is_ctl) or fn.key in helpers:
                continue
            r = check_fn(fn, short if not is_ctl else "nest_attach", helpers, F)
            if r is None:
                continue
            ok, detail, k = r
            n += 0 if is_ctl else 1
            fired |= is_ctl and not ok
            rep.add(Obligation(rule, fn.base, "nesting depth bounded before " + short, fn.loc,
                               DISCHARGED if ok else VIOLATION, control=is_ctl, detail=detail))
    rep.control(rule, "nest_bad", fired, "a bound on the work-stack size instead of the nesting level must be reported")
    return n
