"""Common check framework: obligations, known findings, evidence, exit codes."""
import json
import os
import sys
import time

from .substrate import VERIF, EXIT_OK, EXIT_VIOLATION, EXIT_BROKEN, AnalysisBroken, log

EVIDENCE = os.environ.get("VERIF_EVIDENCE_DIR") or os.path.join(VERIF, "evidence")
KNOWN = os.path.join(VERIF, "known_findings.json")
RULES = os.path.join(VERIF, "rules")

DISCHARGED, VIOLATION, ALLOWED, NOTE = "discharged", "violation", "allowed", "note"


def load_table(name):
    p = os.path.join(RULES, name)
    if not os.path.exists(p):
        raise AnalysisBroken("rule table missing: " + p)
    return json.load(open(p))


class Obligation:
    """One instance of a rule on the analysed program."""

    def __init__(self, rule, function, construct, site, status, detail="",
                 by="", trivial=False, control=False, extra=None):
        self.rule = rule            # e.g. ALLOCGUARD
        self.function = function    # template-stripped qualified name
        self.construct = construct  # stable description of the site (callee / sink / field)
        self.site = site            # file:line (for humans; never used for matching)
        self.status = status
        self.detail = detail        # what is required / what was found
        self.by = by                # discharging guard / table entry / reason
        self.trivial = trivial
        self.control = control
        self.extra = extra or {}

    def key(self):
        return "%s|%s|%s" % (self.rule, self.function, self.construct)

    def to_json(self):
        d = {"rule": self.rule, "function": self.function,
             "construct": self.construct, "site": self.site,
             "status": self.status}
        if self.detail:
            d["detail"] = self.detail
        if self.by:
            d["by"] = self.by
        if self.extra:
            d.update(self.extra)
        return d


class Report:
    def __init__(self, pid, tier, level="other"):
        self.pid = pid
        self.tier = tier
        self.level = level
        self.t0 = time.time()
        self.obls = []
        self.controls = []     # (rule, name, fired)
        self.notes = []
        self.not_decided = []
        self.assumptions = []
        self.rules_text = []
        self.trusted_base = []
        self.stats = {}
        self.floors = []       # (what, found, floor)
        self.extra_cov = {}
        self.broken_msgs = []

    def broken(self, msg):
        """Record an analysis-broken condition without aborting: a violation
        found elsewhere in the same run still takes precedence."""
        self.broken_msgs.append(msg)

    def add(self, o):
        self.obls.append(o)
        return o

    def control(self, rule, name, fired, detail=""):
        self.controls.append({"rule": rule, "control": name, "fired": bool(fired),
                              "detail": detail})

    def floor(self, what, found, floor):
        """Instance-count floor confirmed by hand; below it the rule is broken."""
        self.floors.append({"what": what, "found": found, "floor": floor})

    def note(self, s):
        self.notes.append(s)

    # ------------------------------------------------------------------
    def finalize(self):
        known = {"findings": [], "fixed": []}
        if os.path.exists(KNOWN):
            known = json.load(open(KNOWN))
        kf = {}
        for f in known.get("findings", []):
            if f.get("property") == self.pid:
                kf["%s|%s|%s" % (f["rule"], f["site"]["function"],
                                 f["site"]["construct"])] = f
        real = [o for o in self.obls if not o.control]
        viols = [o for o in real if o.status == VIOLATION]
        unlisted, listed = [], []
        seen_keys = set()
        for o in viols:
            if o.key() in kf:
                if o.key() not in seen_keys:
                    listed.append((o, kf[o.key()]))
            else:
                unlisted.append(o)
            seen_keys.add(o.key())
        broken = list(self.broken_msgs)
        for c in self.controls:
            if not c["fired"]:
                broken.append("positive control silent: %s/%s %s" %
                              (c["rule"], c["control"], c["detail"]))
        # Instance floors guard against a rule that silently stopped matching (vacuous pass).  A count that
        # merely shrank - an edit merged two sites, hoisted a guard - is reported as a note; the rule is
        # "broken" only when it matches nothing at all any more.
        for fl in self.floors:
            if fl["found"] < fl["floor"]:
                hard = fl["floor"] > 0 and fl["found"] == 0
                msg = "instance floor: %s found %d < %d confirmed by hand" % (fl["what"], fl["found"], fl["floor"])
                if hard:
                    broken.append(msg)
                else:
                    self.notes.append(msg + " (within tolerance: reported, not fatal)")
                    fl["tolerated"] = True

        os.makedirs(os.path.join(EVIDENCE, "violations"), exist_ok=True)
        lines = []
        vpaths = []
        # group unlisted violations by key -> one replay file per property run
        if unlisted:
            vp = os.path.join(EVIDENCE, "violations", "%s.json" % self.pid)
            json.dump({"property": self.pid, "tier": self.tier,
                       "violations": [o.to_json() for o in unlisted]},
                      open(vp, "w"), indent=1)
            vpaths.append(vp)
            for o in unlisted:
                print("  violation: [%s] %s in %s at %s: %s" %
                      (o.rule, o.construct, o.function, o.site, o.detail))
            lines.append("VIOLATION property=%s replay=%s" % (self.pid, vp))
        else:
            vp = os.path.join(EVIDENCE, "violations", "%s.json" % self.pid)
            if os.path.exists(vp):
                os.remove(vp)
        for o, f in listed:
            print("KNOWN-FINDING: property=%s %s" % (self.pid, f["what_fails"]))

        nontrivial = {o.key() for o in real if not o.trivial}
        discharged = [o for o in real if o.status in (DISCHARGED, ALLOWED)]
        samples = []
        by_rule = {}
        for o in real:
            by_rule.setdefault(o.rule, []).append(o)
        for r, os_ in sorted(by_rule.items()):
            pick = [o for o in os_ if not o.trivial][:4] or os_[:2]
            samples.extend(o.to_json() for o in pick)
        rule_counts = {r: {"obligations": len(v),
                           "discharged": sum(1 for o in v if o.status == DISCHARGED),
                           "allowed_by_table": sum(1 for o in v if o.status == ALLOWED),
                           "violations": sum(1 for o in v if o.status == VIOLATION),
                           "notes": sum(1 for o in v if o.status == NOTE)}
                       for r, v in sorted(by_rule.items())}
        cov = {
            "explanation": " ".join(self.rules_text) or "static rules over the resolved program",
            "rule": "; ".join(self.rules_text),
            "evaluations": max(1, len(real)),
            "distinct_nontrivial": max(len(nontrivial), 0),
            "obligations": len(real),
            "discharged": len(discharged),
            "known_findings": len(listed),
            "per_rule": rule_counts,
            "samples": samples[:40] or [{"note": "no obligations"}],
            "controls": self.controls,
            "floors": self.floors,
            "exhaustive": True,
            "checker_cmd": "python3 -m verif.check %s --tier %s" % (self.pid, self.tier),
            "trusted_base": self.trusted_base,
            "not_decided": self.not_decided,
            "notes": self.notes[:60],
            "all_obligations": [o.to_json() for o in real][:600],
        }
        cov.update(self.stats)
        cov.update(self.extra_cov)
        ev = {
            "property_id": self.pid,
            "tier": self.tier,
            "seed": int(os.environ.get("VERIF_SEED", "0") or 0),
            "level": self.level,
            "coverage": cov,
            "assumptions": self.assumptions,
            "wall_s": round(time.time() - self.t0, 2),
            "violations": len(unlisted),
        }
        if broken:
            ev["analysis_broken"] = broken
        os.makedirs(EVIDENCE, exist_ok=True)
        json.dump(ev, open(os.path.join(EVIDENCE, "%s.json" % self.pid), "w"),
                  indent=1, sort_keys=False)

        print("%s [%s]: %d obligations, %d discharged/allowed, %d known findings, "
              "%d violations, %d controls fired of %d, %.1fs" %
              (self.pid, self.tier, len(real), len(discharged), len(listed),
               len(unlisted), sum(1 for c in self.controls if c["fired"]),
               len(self.controls), time.time() - self.t0))
        for r, c in rule_counts.items():
            print("  %-12s %s" % (r, c))
        for l in lines:
            print(l)
        if unlisted:
            return EXIT_VIOLATION
        if broken:
            for b in broken:
                print("ANALYSIS-BROKEN: " + b)
            return EXIT_BROKEN
        return EXIT_OK
