"""python3 -m verif.show <violation report.json>: print a stored violation
report (rule, instance, file:line, required guard / path)."""
import json, sys
d = json.load(open(sys.argv[1]))
print("property %s (%s tier)" % (d["property"], d["tier"]))
for v in d["violations"]:
    print("- [%s] %s" % (v["rule"], v["construct"]))
    print("    function: %s" % v["function"])
    print("    site:     %s" % v["site"])
    for k in ("detail", "src", "entry", "offending_exit", "path", "labels"):
        if k in v:
            print("    %-9s %s" % (k + ":", v[k]))
sys.exit(1 if d["violations"] else 0)
