"""STUBREACH: a function the code base itself declares "must never be called"
(its whole body is `DRACO_DCHECK(false); return <dummy>;`) is not reachable
from the writer.

Such a stub exists to satisfy a template interface: a class template is
instantiated with a policy type that cannot supply the value (the wrap
transform has no `quantization_bits()`).  In a release build the assertion is
compiled out and the dummy value flows into the coder, so every object of a
class whose methods call the stub encodes values the format does not carry:
the stream decodes "successfully" to different data.  The rule therefore
requires that no *construction site* of such a class is feasible in
Reach(encode):

  stubs      functions whose source body contains the marker and whose CFG has
             no call, no branch and returns a constant
  poisoned   classes (template instantiations) with a method that calls a stub
  sites      `new <poisoned class>` in Reach(encode); each is pinned by the
             dominating equality tests (`method == MESH_PREDICTION_...`)
  feasible   backwards value flow of the pinned value over the call graph: a
             small concrete/abstract evaluator follows each caller's CFG with
             the value of the argument described as a constant, the caller's
             own parameter (with the values excluded by the branches passed),
             the result of a call (the constants the callee can return) or
             unknown.  A site is infeasible when every origin excludes the
             pinned value.

A marker in the middle of a function (`DRACO_DCHECK(false); return nullptr;`
after an if-chain) is a handled fallthrough when what follows is a failing /
neutral return; that is checked too.
"""
import os
import re

from .facts import walk, strip_targs
from .primbound import _atoms, _const
from . import evalcfg

MARKER = re.compile(r"DRACO_DCHECK\(\s*false\s*\)")
MAX_STATES = 6000


def _strip(t):
    while isinstance(t, dict) and t.get("k") in ("icast", "cast", "copy", "paren") and "v" not in t:
        t = t.get("e")
    return t


# ---------------------------------------------------------------------------------------------------
# markers
def marker_sites(root):
    """[(abs file, line)] of must-not-reach markers in library sources (tests excluded)."""
    out = []
    base = os.path.join(root, "src", "draco")
    for dp, dn, fs in os.walk(base):
        for f in fs:
            if not f.endswith((".h", ".cc")) or f.endswith("_test.cc") or "test_utils" in f:
                continue
            p = os.path.join(dp, f)
            try:
                lines = open(p, errors="replace").read().split("\n")
            except OSError:
                continue
            for i, ln in enumerate(lines, 1):
                code = ln.split("//", 1)[0]
                if MARKER.search(code):
                    out.append((p, i))
    return sorted(out)


def enclosing(F, path, line):
    """all bodies (instantiations) of the function whose definition encloses path:line"""
    cands = [f for f in F.fns.values() if f.file == path and f.line <= line]
    if not cands:
        return []
    start = max(f.line for f in cands)
    return [f for f in cands if f.line == start]


def is_whole_stub(fn):
    if any(True for _ in fn.calls()):
        return False
    if any(b.cond is not None and len([s for s in b.succ if s is not None]) > 1 for b in fn.blocks.values()):
        return False
    rets = list(fn.returns())
    if len(rets) != 1:
        return False
    e = rets[0][1].get("e")
    return e is None or _const(_strip(e)) is not None or (isinstance(_strip(e), dict) and "v" in _strip(e))


def fallthrough_return(fn, line):
    """the first return at/after the marker line: (event, is it a failing / neutral value)"""
    best = None
    for b, ev in fn.returns():
        l = int((ev.get("loc") or "0:0").split(":")[0] or 0)
        if l >= line and (best is None or l < best[0]):
            best = (l, ev)
    if best is None:
        return None, False
    e = _strip(best[1].get("e"))
    neutral = False
    if isinstance(e, dict):
        if e.get("k") == "lit" and e.get("v") in (0, None) and e.get("s") is None:
            neutral = True
        if e.get("k") in ("nullptr", "null") or e.get("t") == "std::nullptr_t":
            neutral = True
        for n in walk(best[1].get("e")):
            if n.get("k") in ("nullptr", "null") or n.get("t") == "std::nullptr_t" or \
                    (n.get("k") == "lit" and n.get("v") == 0):
                neutral = True
    return best[1], neutral


# ---------------------------------------------------------------------------------------------------
# value-flow evaluator
class Flow:
    """Abstract-concrete exploration of one function body.  env: plain evalcfg environment
    (('v', decl id) -> int | None) plus meta (decl id -> (src, excluded values)) and the set of
    assumptions made about parameters' entry values on the path."""

    def __init__(self, F, scope_keys):
        self.F = F
        self.scope = scope_keys
        self.callers = {}
        for fn in F.fns.values():
            if fn.key not in scope_keys:
                continue
            for n, b, rk, ev in fn.calls():
                if n.get("k") != "call":
                    continue
                for t in F.targets(n):
                    self.callers.setdefault(t.key, []).append((fn, n, b))
        self._ret = {}
        self._feas = {}

    # -- describing a value ------------------------------------------------------------------------
    def describe(self, tree, env, meta):
        """[outcome]: ('val', v) | ('param', i, ne) | ('call', key, ne) | ('unknown',)"""
        t = _strip(tree)
        if not isinstance(t, dict):
            return [("unknown",)]
        v = evalcfg.ev(t, env)
        if v is not None:
            return [("val", v)]
        k = t.get("k")
        if k == "var" and "d" in t:
            m = meta.get(t["d"])
            if m and m[0] is not None:
                return [m[0] + (m[1],)]
            return [("unknown",)]
        if k == "cond":
            tr = self.truth(t.get("c"), env, meta)
            if tr is True:
                return self.describe(t.get("t"), env, meta)
            if tr is False:
                return self.describe(t.get("f"), env, meta)
            return self.describe(t.get("t"), env, meta) + self.describe(t.get("f"), env, meta)
        if k == "call" and not t.get("virt"):
            tg = [x for x in self.F.targets(t)]
            if len(tg) == 1:
                return [("call", (tg[0].key, t.get("i")), frozenset())]
        return [("unknown",)]

    def truth(self, cond, env, meta):
        """True / False / None: the condition under the values *and exclusions* known on this path (the CFG has
        already branched on a `?:` condition when its value is consumed in the join block)"""
        v = evalcfg.ev(cond, env)
        if v is not None:
            return bool(v)
        from .cfgutil import _strip_not
        tree, pos = _strip_not(cond, True)
        t = _strip(tree)
        if isinstance(t, dict) and t.get("k") == "bin" and t.get("op") in ("==", "!="):
            for side, other in ((t.get("l"), t.get("r")), (t.get("r"), t.get("l"))):
                c = _const(other) if isinstance(other, dict) else None
                sd = _strip(side)
                if c is None or not isinstance(sd, dict) or sd.get("k") != "var" or "d" not in sd:
                    continue
                m = meta.get(sd["d"])
                if m and c in m[1]:
                    eq = False
                    res = eq if t["op"] == "==" else not eq
                    return res if pos else not res
        return None

    def _store(self, d, rhs, env, meta):
        v = evalcfg.ev(rhs, env)
        env[("v", d)] = v
        if v is not None:
            meta.pop(d, None)
            return
        ds = self.describe(rhs, env, meta)
        if len(ds) == 1 and ds[0][0] in ("param", "call"):
            meta[d] = (ds[0][:2], ds[0][2])
        else:
            meta.pop(d, None)

    def _events(self, b, env, meta):
        for e in b.ev:
            if e.get("iscond"):
                continue
            k = e["k"]
            tree = e.get("e")
            if k == "decl" and "d" in (e.get("var") or {}):
                if isinstance(tree, dict):
                    self._store(e["var"]["d"], tree, env, meta)
                continue
            if not isinstance(tree, dict):
                continue
            for n in walk(tree):
                kk = n.get("k")
                if kk == "bin" and n.get("op") == "=":
                    l = _strip(n.get("l"))
                    if isinstance(l, dict) and l.get("k") == "var" and "d" in l:
                        self._store(l["d"], n.get("r"), env, meta)
                elif kk == "bin" and n.get("op", "").endswith("=") and n.get("op") not in ("==", "!=", "<=", ">="):
                    l = _strip(n.get("l"))
                    if isinstance(l, dict) and l.get("k") == "var" and "d" in l:
                        env[("v", l["d"])] = None
                        meta.pop(l["d"], None)
                elif kk == "un" and n.get("op") in ("++", "--", "&", "p++", "p--", "++p", "--p"):
                    x = _strip(n.get("e"))
                    if isinstance(x, dict) and x.get("k") == "var" and "d" in x:
                        env[("v", x["d"])] = None
                        meta.pop(x["d"], None)

    @staticmethod
    def _freeze(env, meta, asm):
        return (tuple(sorted((k, v) for k, v in env.items() if v is not None)),
                tuple(sorted((d, m[0], tuple(sorted(m[1]))) for d, m in meta.items())), tuple(sorted(asm)))

    def _refine(self, atoms, env, meta, asm):
        """apply the facts of one branch outcome; returns False when they contradict the state"""
        for l, op, r in atoms:
            for side, other, o in ((l, r, op), (r, l, op)):
                c = _const(other) if isinstance(other, dict) else None
                s = _strip(side)
                if c is None or not isinstance(s, dict) or s.get("k") != "var" or "d" not in s:
                    continue
                d = s["d"]
                cur = env.get(("v", d))
                m = meta.get(d)
                # every variable holding the same origin (a copy of the parameter's entry value, of the
                # same call's result) learns the fact too
                same = [d2 for d2, m2 in meta.items() if m and m2[0] == m[0]] if m else []
                if o == "==":
                    if cur is not None and cur != c:
                        return False
                    if m and c in m[1]:
                        return False
                    if m and m[0][0] == "param":
                        asm.add((m[0][1], "==", c))
                    env[("v", d)] = c
                    meta.pop(d, None)
                    for d2 in same:
                        if d2 != d:
                            env[("v", d2)] = c
                            meta.pop(d2, None)
                elif o == "!=":
                    if cur is not None:
                        if cur == c:
                            return False
                    elif m:
                        for d2 in same:
                            meta[d2] = (meta[d2][0], meta[d2][1] | {c})
        return True

    def explore(self, fn, watch, pin=None):
        """watch: {block id: [(tag, tree)]}; returns ({tag: [(outcome, assumptions)]}, exhausted?)"""
        env0, meta0 = {}, {}
        for i, p in enumerate(fn.params):
            if "d" in p:
                if pin and i in pin:
                    env0[("v", p["d"])] = pin[i]
                else:
                    meta0[p["d"]] = (("param", i), frozenset())
        res = {}
        seen = set()
        stack = [(fn.entry, env0, meta0, frozenset())]
        n = 0
        while stack:
            bid, env, meta, asm = stack.pop()
            key = (bid,) + self._freeze(env, meta, asm)
            if key in seen:
                continue
            seen.add(key)
            n += 1
            if n > MAX_STATES:
                return res, False
            b = fn.blocks[bid]
            env, meta = dict(env), dict(meta)
            self._events(b, env, meta)
            for tag, tree in watch.get(bid, ()):
                for oc in self.describe(tree, env, meta):
                    res.setdefault(tag, []).append((oc, asm))
            succ = b.succ
            if b.cond is not None and b.labels is not None:
                sv = _strip(b.cond)
                val = evalcfg.ev(b.cond, env)
                cases = [l.get("case") for l in b.labels if isinstance(l, dict) and "case" in l]
                for i, s_ in enumerate(succ):
                    if s_ is None:
                        continue
                    lab = b.labels[i] if i < len(b.labels) else None
                    cv = lab.get("case") if isinstance(lab, dict) else None
                    e2, m2, a2 = dict(env), dict(meta), set(asm)
                    if cv is not None:
                        if val is not None and val != cv:
                            continue
                        if val is None and not self._refine([(sv, "==", {"k": "lit", "v": cv})], e2, m2, a2):
                            continue
                    else:
                        if val is not None and val in cases:
                            continue
                        if val is None:
                            ok = True
                            for c in cases:
                                ok = ok and self._refine([(sv, "!=", {"k": "lit", "v": c})], e2, m2, a2)
                            if not ok:
                                continue
                    stack.append((s_, e2, m2, frozenset(a2)))
                continue
            if b.cond is not None and len(succ) == 2:
                c = evalcfg.ev(b.cond, env)
                for oc, s_ in ((True, succ[0]), (False, succ[1])):
                    if s_ is None or (c is not None and bool(c) != oc):
                        continue
                    e2, m2, a2 = dict(env), dict(meta), set(asm)
                    if c is None and not self._refine(_atoms(b.cond, oc), e2, m2, a2):
                        continue
                    stack.append((s_, e2, m2, frozenset(a2)))
                continue
            for s_ in succ:
                if s_ is not None:
                    stack.append((s_, env, meta, asm))
        return res, True

    # -- constants a callee can return ---------------------------------------------------------------
    def returns(self, key, depth=0):
        """(set of constants, may return something else?)"""
        if key in self._ret:
            return self._ret[key]
        self._ret[key] = (set(), False)          # recursion cut
        fn = self.F.fns.get(key)
        if fn is None or depth > 3:
            self._ret[key] = (set(), True)
            return self._ret[key]
        watch = {}
        for b, ev in fn.returns():
            if ev.get("e") is not None:
                watch.setdefault(b.id, []).append(("ret", ev["e"]))
        res, done = self.explore(fn, watch)
        vals, other = set(), not done
        for oc, asm in res.get("ret", []):
            if oc[0] == "val":
                vals.add(oc[1])
            elif oc[0] == "call":
                v2, o2 = self.returns(oc[1][0], depth + 1)
                vals |= v2 - set(oc[2])
                other |= o2
            else:
                other = True
        self._ret[key] = (vals, other)
        return self._ret[key]

    # -- feasibility -----------------------------------------------------------------------------------
    def outcome_feasible(self, fn, oc, asm, v, trail, depth):
        """can this outcome be the value v?  -> chain (list of strings) or None"""
        pre = []
        for (i, op, c) in sorted(asm):
            if op == "==":
                why = self.param_feasible(fn, i, c, trail, depth + 1)
                if why is None:
                    return None
                pre += why
        kind = oc[0]
        if kind == "val":
            if oc[1] != v:
                return None
            return pre if pre else ["constant %d" % v]
        if kind == "unknown":
            return ["a value of unknown origin"]
        if v in oc[2]:
            return None
        if kind == "param":
            return self.param_feasible(fn, oc[1], v, trail, depth + 1)
        if kind == "call":
            vals, other = self.returns(oc[1][0])
            g = self.F.fns.get(oc[1][0])
            nm = strip_targs(g.name) if g else "?"
            if v in vals:
                return ["%s can return %d" % (nm.replace("draco::", ""), v)]
            if other:
                return ["%s returns a value that is not a known constant" % nm.replace("draco::", "")]
            return None
        return ["?"]

    def param_feasible(self, fn, idx, v, trail=(), depth=0):
        key = (fn.key, idx, v)
        if key in self._feas:
            return self._feas[key]
        if depth > 12:
            return ["call chain deeper than the analysis bound"]
        self._feas[key] = None               # cycles: least fixpoint
        sites = self.callers.get(fn.key, [])
        result = None
        if not sites:
            # a root of the analysed scope (API entry point, callback): its arguments are the user's
            result = ["parameter %d of the entry point %s" % (idx, fn.base.replace("draco::", ""))]
        for caller, call, b in sites:
            args = call.get("args", [])
            if idx >= len(args):
                continue
            res, done = self.explore(caller, {b: [("arg", args[idx])]})
            if not done:
                result = ["%s: state bound exceeded" % caller.base]
                break
            for oc, asm in res.get("arg", []):
                why = self.outcome_feasible(caller, oc, asm, v, trail, depth)
                if why is not None:
                    result = ["%s passes it at %s" % (caller.base.replace("draco::", ""),
                                                      caller.site(call.get("loc", "")))] + why
                    break
            if result:
                break
        self._feas[key] = result
        return result

    def site_feasible(self, fn, block):
        """Is the block (a construction site) feasible?  Every equality test on a local / parameter whose
        outcome dominates the block must be satisfiable by some origin of the tested variable.
        -> (pins as text, chain or None)"""
        from .cfgutil import dominating_edges
        pins = []
        for cb, oc, cond in dominating_edges(fn, block):
            if isinstance(oc, tuple):
                if oc[0] == "case":
                    sv = _strip(cb.cond)
                    if isinstance(sv, dict) and sv.get("k") == "var" and "d" in sv:
                        pins.append((cb.id, sv, tuple(oc[3]) if len(oc) > 3 and oc[3] else (oc[1],)))
                continue
            for l, op, r in _atoms(cond, oc):
                if op != "==":
                    continue
                for side, other in ((l, r), (r, l)):
                    c = _const(other) if isinstance(other, dict) else None
                    sd = _strip(side)
                    if c is not None and isinstance(sd, dict) and sd.get("k") == "var" and "d" in sd:
                        pins.append((cb.id, sd, (c,)))
        pins = sorted(set((b, t["d"], t.get("n"), vs) for b, t, vs in pins))
        text = ", ".join("%s == %s" % (n, "|".join(str(v) for v in vs)) for b, d, n, vs in pins)
        if not pins:
            return text, ["constructed without a test of a local value"]
        chain = []
        for cbid, d, name, vals in pins:
            tree = {"k": "var", "d": d, "n": name}
            res, done = self.explore(fn, {cbid: [("t", tree)]})
            if not done:
                return text, ["state bound exceeded in " + fn.base]
            why = None
            for oc, asm in res.get("t", []):
                for v in vals:
                    why = self.outcome_feasible(fn, oc, asm, v, (), 0)
                    if why is not None:
                        break
                if why is not None:
                    break
            if why is None:
                return text, None
            chain += ["%s == %s: " % (name, "|".join(str(v) for v in vals)) + "; ".join(why)]
        return text, chain


def run_stubreach(ctx, rep, rule="STUBREACH"):
    from .core import Obligation, DISCHARGED, VIOLATION
    F = ctx.F
    from .substrate import REPO as root
    enc = set(ctx.reach("encode"))
    ctl = {f.key for f in F.fns.values() if f.name.startswith("verif_control::stub_")}
    flow = Flow(F, enc | ctl)
    sites = marker_sites(root)
    ctl_file = [f for f in F.fns.values() if f.name.startswith("verif_control::stub_")]
    n_stub = 0
    fired = False
    stubs = []
    for path, line in sites:
        fns = enclosing(F, path, line)
        if not fns:
            # the function is never instantiated / has no body in any analysed unit: nothing can call it
            rep.add(Obligation(rule, "%s:%d" % (os.path.relpath(path, root), line), "must-not-reach marker",
                               "%s:%d" % (path, line), DISCHARGED, trivial=True,
                               detail="enclosing function has no body in any analysed translation unit"))
            continue
        whole = [f for f in fns if is_whole_stub(f)]
        if whole:
            stubs += whole
            n_stub += 1
            continue
        for f in fns[:1]:
            ev, neutral = fallthrough_return(f, line)
            rep.add(Obligation(rule, f.base, "marker falls through to a failing return", "%s:%d" % (path, line),
                               DISCHARGED if neutral else VIOLATION,
                               detail="`return nullptr/false` follows the marker: the caller handles the "
                               "impossible case" if neutral else
                               "the must-not-reach marker is followed by code that continues with a value"))
            n_stub += 1
    # control stubs are recognised by name (the control file cannot use the draco macro without the header)
    stubs += [f for f in ctl_file if f.name.endswith("_dummy_value")]
    stub_keys = {f.key for f in stubs}
    poisoned = {}
    for fn in F.fns.values():
        if fn.key not in enc and fn.key not in ctl:
            continue
        for n, b, rk, ev in fn.calls():
            for t in F.targets(n):
                if t.key in stub_keys:
                    if fn.cls:
                        poisoned.setdefault(fn.cls, (fn, t, n))
                    else:
                        # a free function calling the stub: the call itself is the site
                        poisoned.setdefault("fn:" + fn.key, (fn, t, n))
    n_sites = 0
    good_ok = True
    for cls, (meth, stub, call) in sorted(poisoned.items()):
        is_ctl = meth.name.startswith("verif_control::")
        found = False
        for fn in F.fns.values():
            if fn.key not in enc and fn.key not in ctl:
                continue
            for n, b, rk, ev in fn.nodes():
                if n.get("k") not in ("new", "ctor"):
                    continue
                t = n.get("t") if n.get("k") == "new" else n.get("cls")
                if t != cls or "array" in n:
                    continue
                if fn.cls == cls:
                    continue            # the class's own constructors / copies
                found = True
                text, chain = flow.site_feasible(fn, b)
                ok = chain is None
                n_sites += 0 if is_ctl else 1
                if is_ctl and "good" in fn.name:
                    good_ok = good_ok and ok
                    rep.add(Obligation(rule, fn.base, "control: guarded construction stays silent",
                                       fn.site(n.get("loc", "")), DISCHARGED, control=True,
                                       detail="infeasible as expected" if ok else "the evaluator lost the exclusion: " +
                                       " <- ".join(chain or [])))
                    continue
                fired |= is_ctl and not ok
                rep.add(Obligation(rule, fn.base, "constructs %s" % strip_targs(cls).replace("draco::", ""),
                                   fn.site(n.get("loc", "")), DISCHARGED if ok else VIOLATION, control=is_ctl,
                                   detail=("%s calls the must-not-be-called stub %s; the construction under [%s] is "
                                           "infeasible: every origin of the tested value excludes it" if ok else
                                           "%s calls the must-not-be-called stub %s (dummy value in release builds) and "
                                           "its construction under [%s] is feasible: ") % (
                                       strip_targs(meth.name).replace("draco::", ""),
                                       strip_targs(stub.name).replace("draco::", ""), text) +
                                   ("" if ok else " <- ".join(chain))))
        if not found and not is_ctl:
            rep.add(Obligation(rule, strip_targs(cls), "never constructed on the writer side", meth.loc, DISCHARGED,
                               trivial=True, detail="no `new` of this instantiation in Reach(encode)"))
    rep.control(rule, "stub_", fired, "a feasible construction of a class that calls a dummy-value stub must be reported")
    rep.control(rule, "stub_factory_good", good_ok, "a construction whose pinned value every origin excludes must stay silent")
    return n_stub, n_sites
