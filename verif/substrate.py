"""Substrate: get the resolved program from /repo's *current* working tree.

configure (cmake, configure only) -> compile database -> dfacts facts (E1),
LLVM IR + dreach facts (E2).  Everything is keyed by a content hash of the
sources so a changed tree is re-extracted and an unchanged one is served from
/verif/.cache/<hash>/.
"""
import hashlib
import json
import os
import re
import shlex
import shutil
import subprocess
import sys
import tempfile
import time
from concurrent.futures import ThreadPoolExecutor

VERIF = os.path.dirname(os.path.dirname(os.path.abspath(__file__)))
REPO = os.environ.get("VERIF_REPO", "/repo")
CACHE = os.environ.get("VERIF_CACHE_DIR") or os.path.join(VERIF, ".cache")
BIN = os.path.join(VERIF, "bin")
CONTROLS = os.path.join(VERIF, "controls")
RESOURCE_DIR = "/usr/lib/llvm-14/lib/clang/14.0.6"
NPROC = min(16, os.cpu_count() or 4)

EXIT_OK, EXIT_VIOLATION, EXIT_BROKEN = 0, 1, 2


class AnalysisBroken(Exception):
    """The analysis itself cannot run (anchor vanished, extractor failed...)."""


def log(*a):
    print("[verif]", *a, file=sys.stderr, flush=True)


def _hash_tree(paths, h):
    for root in paths:
        if os.path.isfile(root):
            h.update(root.encode())
            with open(root, "rb") as f:
                h.update(f.read())
            continue
        for d, dirs, files in os.walk(root):
            dirs.sort()
            for fn in sorted(files):
                if not fn.endswith((".cc", ".h", ".cmake", ".txt", ".in", ".py",
                                    ".json", ".c", ".cpp", ".hpp")):
                    continue
                p = os.path.join(d, fn)
                h.update(p.encode())
                try:
                    with open(p, "rb") as f:
                        h.update(f.read())
                except OSError:
                    pass


def tree_hash():
    h = hashlib.sha256()
    _hash_tree([os.path.join(REPO, "src"), os.path.join(REPO, "cmake"),
                os.path.join(REPO, "CMakeLists.txt"), CONTROLS,
                os.path.join(VERIF, "tools")], h)
    cc = os.path.join(REPO, "_build", "CMakeCache.txt")
    if os.path.exists(cc):
        for k, v in sorted(_cache_options(cc).items()):
            h.update(("%s=%s" % (k, v)).encode())
    return h.hexdigest()[:20]


def _cache_options(path):
    opts = {}
    try:
        for line in open(path):
            m = re.match(r"^(DRACO_[A-Z_]+):BOOL=(.*)$", line.strip())
            if m:
                opts[m.group(1)] = m.group(2)
    except OSError:
        pass
    return opts


class Substrate:
    def __init__(self):
        self.t0 = time.time()
        self.hash = tree_hash()
        self.cdir = os.path.join(CACHE, self.hash)
        os.makedirs(self.cdir, exist_ok=True)
        self._prune_cache()
        self._units = None

    # -- cache hygiene -------------------------------------------------
    def _prune_cache(self, keep=3):
        try:
            ents = [os.path.join(CACHE, e) for e in os.listdir(CACHE)]
            ents = [e for e in ents if os.path.isdir(e) and e != self.cdir]
            ents.sort(key=lambda e: os.path.getmtime(e), reverse=True)
            for e in ents[keep - 1:]:
                shutil.rmtree(e, ignore_errors=True)
            os.utime(self.cdir, None)
        except OSError:
            pass

    # -- compile database ------------------------------------------------
    def compdb(self):
        """Returns list of {file, args} for library+tool units of the build."""
        if self._units is not None:
            return self._units
        cj = os.path.join(self.cdir, "units.json")
        gen = os.path.join(self.cdir, "gen")
        if os.path.exists(cj) and os.path.exists(
                os.path.join(gen, "draco", "draco_features.h")):
            self._units = json.load(open(cj))
            return self._units
        scratch = tempfile.mkdtemp(prefix="verif-cfg-")
        try:
            cfg = os.path.join(scratch, "cfg")
            cmd = ["cmake", "-S", REPO, "-B", cfg, "-G", "Ninja",
                   "-DCMAKE_CXX_COMPILER=clang++",
                   "-DCMAKE_BUILD_TYPE=RelWithDebInfo"]
            cc = os.path.join(REPO, "_build", "CMakeCache.txt")
            opts = _cache_options(cc) if os.path.exists(cc) else {}
            # tests are never analysed; leaving them out avoids needing
            # third_party/googletest in scratch copies
            opts["DRACO_TESTS"] = "OFF"
            for k, v in sorted(opts.items()):
                cmd.append("-D%s=%s" % (k, v))
            r = subprocess.run(cmd, stdout=subprocess.PIPE,
                               stderr=subprocess.STDOUT, text=True)
            if r.returncode != 0:
                raise AnalysisBroken("cmake configure failed:\n" + r.stdout[-2000:])
            r = subprocess.run(["ninja", "-C", cfg, "-t", "compdb"],
                               stdout=subprocess.PIPE, text=True)
            if r.returncode != 0:
                raise AnalysisBroken("ninja -t compdb failed")
            db = json.loads(r.stdout)
            # keep generated headers
            if os.path.exists(gen):
                shutil.rmtree(gen)
            os.makedirs(gen)
            gsrc = os.path.join(cfg, "draco")
            if not os.path.exists(os.path.join(gsrc, "draco_features.h")):
                raise AnalysisBroken("configure did not generate draco_features.h")
            shutil.copytree(gsrc, os.path.join(gen, "draco"))
            units, seen = [], set()
            for e in db:
                f = e["file"]
                if not f.endswith(".cc") or f in seen:
                    continue
                if not f.startswith(os.path.join(REPO, "src") + "/"):
                    continue
                base = os.path.basename(f)
                if base.endswith("_test.cc") or base.startswith("draco_test_"):
                    continue
                seen.add(f)
                args = shlex.split(e["command"])
                out, skip = [], 0
                for i, a in enumerate(args[1:]):
                    if skip:
                        skip -= 1
                        continue
                    if a in ("-o", "-MT", "-MF"):
                        skip = 1
                        continue
                    if a in ("-MD", "-c", "-g") or a == f:
                        continue
                    if a == "-I" + cfg:
                        a = "-I" + gen
                    out.append(a)
                out += ["-std=gnu++17", "-w"]
                units.append({"file": f, "args": out})
            units.sort(key=lambda u: u["file"])
            if len(units) < 90:
                raise AnalysisBroken("compile database has only %d units" % len(units))
            json.dump(units, open(cj, "w"))
            self._units = units
            return units
        finally:
            shutil.rmtree(scratch, ignore_errors=True)

    def control_units(self):
        base = self.compdb()[0]["args"]
        out = []
        if os.path.isdir(CONTROLS):
            for fn in sorted(os.listdir(CONTROLS)):
                if fn.endswith(".cc"):
                    out.append({"file": os.path.join(CONTROLS, fn), "args": list(base)})
        return out

    def include_flags(self):
        return [a for a in self.compdb()[0]["args"] if a.startswith(("-I", "-D"))]

    # -- E1 facts -----------------------------------------------------------
    def facts_files(self):
        fdir = os.path.join(self.cdir, "facts")
        done = os.path.join(fdir, "DONE")
        if os.path.exists(done):
            return sorted(os.path.join(fdir, f) for f in os.listdir(fdir)
                          if f.endswith(".jsonl"))
        dfacts = os.path.join(BIN, "dfacts")
        if not os.path.exists(dfacts):
            r = subprocess.run([os.path.join(VERIF, "tools", "build.sh")])
            if r.returncode != 0 or not os.path.exists(dfacts):
                raise AnalysisBroken("dfacts is not built (run MANIFEST.setup_cmd)")
        units = self.compdb() + self.control_units()
        if os.path.exists(fdir):
            shutil.rmtree(fdir)
        os.makedirs(fdir)
        scratch = tempfile.mkdtemp(prefix="verif-e1-")
        try:
            db = [{"directory": scratch, "file": u["file"],
                   "arguments": ["clang++"] + u["args"] + ["-c", u["file"]]}
                  for u in units]
            json.dump(db, open(os.path.join(scratch, "compile_commands.json"), "w"))
            # heavier units first, round-robin
            sized = sorted(units, key=lambda u: -os.path.getsize(u["file"]))
            batches = [[] for _ in range(NPROC)]
            for i, u in enumerate(sized):
                batches[i % NPROC].append(u["file"])
            t0 = time.time()

            def run(i):
                if not batches[i]:
                    return 0, ""
                out = os.path.join(fdir, "b%02d.jsonl" % i)
                cmd = [dfacts, "-p", scratch, "--out", out,
                       "--root", os.path.join(REPO, "src", "draco"),
                       "--root", CONTROLS,
                       "--extra-arg=-resource-dir=" + RESOURCE_DIR] + batches[i]
                r = subprocess.run(cmd, stdout=subprocess.PIPE,
                                   stderr=subprocess.STDOUT, text=True)
                return r.returncode, r.stdout

            with ThreadPoolExecutor(NPROC) as ex:
                res = list(ex.map(run, range(NPROC)))
            bad = [(rc, o) for rc, o in res if rc != 0]
            if bad:
                raise AnalysisBroken("dfacts failed on %d batches:\n%s" %
                                     (len(bad), bad[0][1][-3000:]))
            log("E1: extracted %d units in %.1fs" % (len(units), time.time() - t0))
            open(done, "w").write("ok")
        finally:
            shutil.rmtree(scratch, ignore_errors=True)
        return sorted(os.path.join(fdir, f) for f in os.listdir(fdir)
                      if f.endswith(".jsonl"))


def _ir_facts(self):
    """E2: compile every unit to LLVM bitcode with the build's flags, link,
    run dreach.  Returns path of the JSON facts (cached per tree hash)."""
    out = os.path.join(self.cdir, "ir", "dreach.json")
    if os.path.exists(out):
        return out
    dreach = os.path.join(BIN, "dreach")
    if not os.path.exists(dreach):
        subprocess.run([os.path.join(VERIF, "tools", "build.sh")])
    if not os.path.exists(dreach):
        raise AnalysisBroken("dreach is not built (run MANIFEST.setup_cmd)")
    # the library (what ships as libdraco) + controls; the two command line
    # tools each define main() and are not part of the library
    units = [u for u in self.compdb() if "/src/draco/tools/" not in u["file"]] + self.control_units()
    irdir = os.path.join(self.cdir, "ir")
    if os.path.exists(irdir):
        shutil.rmtree(irdir)
    os.makedirs(irdir)
    scratch = tempfile.mkdtemp(prefix="verif-e2-")
    try:
        t0 = time.time()

        def comp(iu):
            i, u = iu
            bc = os.path.join(scratch, "u%03d.bc" % i)
            args = [a for a in u["args"] if a not in ("-O2", "-O3", "-O1")]
            cmd = ["clang++"] + args + ["-O0", "-Xclang", "-disable-O0-optnone", "-g",
                                        "-emit-llvm", "-c", u["file"], "-o", bc]
            r = subprocess.run(cmd, stdout=subprocess.PIPE, stderr=subprocess.STDOUT, text=True)
            return bc, r.returncode, r.stdout

        with ThreadPoolExecutor(NPROC) as ex:
            res = list(ex.map(comp, enumerate(units)))
        bad = [(bc, o) for bc, rc, o in res if rc != 0]
        if bad:
            raise AnalysisBroken("IR compile failed for %d units: %s" % (len(bad), bad[0][1][-800:]))
        linked = os.path.join(scratch, "all.bc")
        r = subprocess.run(["llvm-link-14", "-o", linked] + [bc for bc, _, _ in res],
                           stdout=subprocess.PIPE, stderr=subprocess.STDOUT, text=True)
        if r.returncode != 0:
            raise AnalysisBroken("llvm-link failed: " + r.stdout[-800:])
        r = subprocess.run([dreach, linked, out + ".tmp"], stdout=subprocess.PIPE,
                           stderr=subprocess.STDOUT, text=True)
        if r.returncode != 0:
            raise AnalysisBroken("dreach failed: " + r.stdout[-800:])
        os.rename(out + ".tmp", out)
        log("E2: %d units compiled, linked and analysed in %.1fs" % (len(units), time.time() - t0))
    finally:
        shutil.rmtree(scratch, ignore_errors=True)
    return out


Substrate.ir_facts = _ir_facts
