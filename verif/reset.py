"""RESET: per-run state of a reusable worker object is re-initialised on every
successful run.

For a class hierarchy rooted at R with a run entry method E (e.g.
PointCloudEncoder / Encode): for each class K of the hierarchy, the methods
reachable from E through calls on `this` (virtual calls resolved to K's final
overrider) are the run.  A member field (of K or a base) that the run
*mutates* - assigns, grows, clears - is per-run state, and must be *reset*
(assigned, cleared, reset()) on every path of the run that reaches a success
return: MustReset(E) computed as a must-pass fixpoint over the run's methods.
A field that is only conditionally written keeps a value from the previous run
on the other paths: the second run of the same object then depends on the first.
"""
from .facts import walk, strip_targs
from .cfgutil import success_returns, ret_kind

GROW = ("push_back", "emplace_back", "insert", "emplace", "resize", "operator[]", "reserve", "append", "push",
        "emplace_hint", "try_emplace", "operator+=")
RESET = ("clear", "operator=", "reset", "assign", "swap")


def chain(F, k):
    out, todo = [], [k]
    while todo:
        x = todo.pop(0)
        if x in out or x not in F.classes:
            continue
        out.append(x)
        todo += F.classes[x].get("bases", [])
    return out


def _unwrap(t):
    while isinstance(t, dict) and t.get("k") in ("icast", "copy", "cast", "paren"):
        t = t.get("e")
    return t


def this_field(t):
    t = _unwrap(t)
    if isinstance(t, dict) and t.get("k") == "field" and t.get("this"):
        return (strip_targs(t.get("cls") or ""), t.get("n"))
    return None


class Run:
    def __init__(self, F, k, entry_short):
        self.F, self.k = F, k
        self.chain = chain(F, k)
        self.rank = {c: i for i, c in enumerate(self.chain)}
        self.entry = None
        for c in self.chain:
            for m in F.classes[c]["methods"]:
                if m["sn"] == entry_short and F.by_m.get(m.get("m")) is not None and self.entry is None:
                    self.entry = F.by_m[m["m"]]
        self.fns = []
        self.calls = {}            # fn.key -> [(block, callee Fn)]
        if self.entry is not None:
            self._collect()

    def resolve(self, call):
        F = self.F
        m = call.get("m")
        if not m:
            return None
        cands = [m]
        if call.get("virt"):
            cands += list(F.all_overriders(m))
        best = None
        for c in cands:
            cls = (F.method_by_m.get(c) or (None,))[0]
            if cls in self.rank and F.by_m.get(c) is not None:
                if best is None or self.rank[cls] < best[0]:
                    best = (self.rank[cls], F.by_m[c])
        return best[1] if best else None

    def _collect(self):
        seen, todo = set(), [self.entry]
        while todo:
            fn = todo.pop()
            if fn.key in seen:
                continue
            seen.add(fn.key)
            self.fns.append(fn)
            cl = []
            for n, b, rk, ev in fn.calls():
                if n.get("k") != "call" or not n.get("objthis"):
                    continue
                g = self.resolve(n)
                if g is not None:
                    cl.append((b, g))
                    todo.append(g)
            self.calls[fn.key] = cl

    # -- effects on fields of this ------------------------------------------------
    def effects(self, fn):
        """[(block, field key, 'reset'|'grow')]"""
        out = []
        for blk, rk, tree, ev in fn.roots():
            if tree is None:
                continue
            for n in walk(tree):
                b = n.get("b", blk.id)
                k = n.get("k")
                if k == "bin" and n.get("op") == "=":
                    f = this_field(n.get("l"))
                    if f:
                        out.append((b, f, "reset"))
                elif k == "bin" and n.get("op") in ("+=", "-=", "|=", "&="):
                    f = this_field(n.get("l"))
                    if f:
                        out.append((b, f, "grow"))
                elif k == "un" and n.get("op") in ("++", "--"):
                    f = this_field(n.get("e"))
                    if f:
                        out.append((b, f, "grow"))
                elif k == "call" and "obj" in n:
                    f = this_field(n.get("obj"))
                    if not f:
                        continue
                    short = strip_targs(n.get("fn") or "").rsplit("::", 1)[-1]
                    if short in RESET:
                        out.append((b, f, "reset"))
                    elif short in GROW:
                        if short == "operator[]" and not (n.get("objt") or "").startswith(("std::map", "std::unordered_map")):
                            continue
                        out.append((b, f, "grow"))
        return out

    def reads(self, fn):
        """fields of this read (any occurrence that is not the target of a plain assignment)"""
        lhs = set()
        out = set()
        for blk, rk, tree, ev in fn.roots():
            if tree is None:
                continue
            for n in walk(tree):
                if n.get("k") == "bin" and n.get("op") == "=":
                    l = _unwrap(n.get("l"))
                    if isinstance(l, dict):
                        lhs.add(id(l))
            for n in walk(tree):
                if n.get("k") == "field" and n.get("this") and id(n) not in lhs:
                    out.add((strip_targs(n.get("cls") or ""), n.get("n")))
        return out

    def analyse(self):
        """-> {field: {"mutated_in": [...], "reset": bool, "witness": str}}"""
        eff = {fn.key: self.effects(fn) for fn in self.fns}
        fields = {}
        for fn in self.fns:
            for b, f, kind in eff[fn.key]:
                fields.setdefault(f, set()).add(fn.base)
        must = {fn.key: set() for fn in self.fns}
        changed = True
        while changed:
            changed = False
            for fn in self.fns:
                for f in fields:
                    if f in must[fn.key]:
                        continue
                    pb = {b for b, ff, kind in eff[fn.key] if ff == f and kind == "reset"}
                    pb |= {b for b, g in self.calls[fn.key] if f in must[g.key]}
                    if pb and self._must_pass(fn, pb):
                        must[fn.key].add(f)
                        changed = True
        rd = {}
        for fn in self.fns:
            for f in self.reads(fn):
                rd.setdefault(f, set()).add(fn.base)
        # reset-first: a member the entry method itself resets must be reset *before* the run touches it - a
        # reset placed only in front of the success return leaves the state of a failed run to the next one
        touches = {fn.key: {f for b, f, kind in eff[fn.key] if kind == "grow"} | self.reads(fn) for fn in self.fns}
        ch = True
        while ch:
            ch = False
            for fn in self.fns:
                for b, g in self.calls[fn.key]:
                    new = touches[g.key] - touches[fn.key]
                    if new:
                        touches[fn.key] |= new
                        ch = True
        late = {}
        E = self.entry
        for f in fields:
            rb = {b for b, ff, kind in eff[E.key] if ff == f and kind == "reset"}
            if not rb:
                continue
            tb = {b for b, ff, kind in eff[E.key] if ff == f and kind == "grow"}
            tb |= {b for b, g in self.calls[E.key] if f in touches[g.key]}
            tb -= rb
            if not tb:
                continue
            reach = E.reachable(removed_blocks=rb) | {E.entry}
            hit = sorted(tb & reach) if E.entry not in rb else []
            if hit:
                late[f] = hit
        res = {}
        for f, where in fields.items():
            res[f] = {"mutated_in": sorted(where), "reset": f in must[self.entry.key],
                      "read_in": sorted(rd.get(f, ())), "reset_after_use": f in late}
        return res

    def _must_pass(self, fn, pass_blocks):
        from .cfgutil import status_fail_edges
        reach = fn.reachable(removed_blocks=set(pass_blocks), removed_edges=status_fail_edges(fn))
        if fn.entry in pass_blocks:
            return True
        if ret_kind(fn.ret.get("t")) is None:
            # void / non-status function: every path to the exit
            return fn.exit not in reach
        for b, ev, c in success_returns(fn):
            if b.id in pass_blocks:
                continue
            if b.id in reach:
                return False
        return True
