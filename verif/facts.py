"""Loader and indexes over dfacts (E1) records; CFG helpers; tree helpers."""
import json
import os
import re
from collections import defaultdict

CHILD_KEYS = ("e", "l", "r", "c", "t", "f", "obj", "base", "idx", "array",
              "init", "calleeexpr")
LIST_KEYS = ("args", "ch", "placement")


def walk(node):
    """Pre-order walk over all dict nodes of an expression tree."""
    stack = [node]
    while stack:
        n = stack.pop()
        if not isinstance(n, dict):
            continue
        yield n
        for k in LIST_KEYS:
            v = n.get(k)
            if isinstance(v, list):
                stack.extend(reversed(v))
        for k in reversed(CHILD_KEYS):
            v = n.get(k)
            if isinstance(v, dict):
                stack.append(v)


_OPS = ["()", "[]", "->*", "->", "<<=", ">>=", "<=>", "<<", ">>", "<=", ">=", "==", "!=",
        "&&", "||", "++", "--", "+=", "-=", "*=", "/=", "%=", "&=", "|=", "^=", "+", "-",
        "*", "/", "%", "&", "|", "^", "~", "!", "=", "<", ">", ","]


def strip_targs(name):
    """draco::Foo<int, Bar<3>>::f<2> -> draco::Foo::f (bracket matching;
    keeps operator< / operator<< / operator() / operator-> intact)."""
    out, depth, i, n = [], 0, 0, len(name)
    while i < n:
        if depth == 0 and name.startswith("operator", i) and \
                (i == 0 or not (name[i - 1].isalnum() or name[i - 1] == "_")):
            j = i + 8
            tok = next((o for o in _OPS if name.startswith(o, j)), None)
            if tok is not None:
                out.append("operator" + tok)
                i = j + len(tok)
                continue
        c = name[i]
        if c == "<":
            depth += 1
        elif c == ">":
            depth -= 1
        elif depth == 0:
            out.append(c)
        i += 1
    return "".join(out)


class Block:
    __slots__ = ("id", "succ", "ev", "cond", "condsrc", "term", "tloc",
                 "labels", "noreturn")

    def __init__(self, j):
        self.id = j["id"]
        self.succ = j.get("succ", [])
        self.ev = j.get("ev", [])
        self.cond = j.get("cond")
        self.condsrc = j.get("condsrc", "")
        self.term = j.get("term")
        self.tloc = j.get("tloc")
        self.labels = j.get("labels")
        self.noreturn = j.get("noreturn", False)


class Fn:
    def __init__(self, j):
        self.j = j
        self.name = j["name"]
        self.m = j.get("m") or ""
        self.loc = j.get("loc", "")
        parts = self.loc.rsplit(":", 2)
        self.file = parts[0] if len(parts) == 3 else self.loc
        self.line = int(parts[1]) if len(parts) == 3 else 0
        self.pat = j.get("pat") or strip_targs(self.name)
        self.base = strip_targs(self.name)
        self.cls = j.get("cls")
        self.inst = j.get("inst", False)
        self.ret = j.get("ret", {})
        self.params = j.get("params", [])
        self.blocks = {b["id"]: Block(b) for b in j["blocks"]}
        self.entry = j["entry"]
        self.exit = j["exit"]
        self.virtual = j.get("virtual", False)
        self.is_lambda = j.get("lambda", False)
        self.key = (self.m or self.name) + "@" + self.loc
        self._preds = None
        self._nodes = None
        self._reach = None

    def __repr__(self):
        return "<Fn %s>" % self.name

    def site(self, lc):
        """file:line for a 'line:col' location inside this function."""
        return "%s:%s" % (self.file, lc.split(":")[0]) if lc else self.loc

    # -- CFG -------------------------------------------------------------
    def succs(self, b):
        return [s for s in self.blocks[b].succ if s is not None]

    def preds(self):
        if self._preds is None:
            p = defaultdict(list)
            for b in self.blocks.values():
                for s in b.succ:
                    if s is not None:
                        p[s].append(b.id)
            self._preds = p
        return self._preds

    def reachable(self, start=None, removed_edges=(), removed_blocks=()):
        """Set of blocks reachable from start avoiding removed edges/blocks."""
        start = self.entry if start is None else start
        if start in removed_blocks:
            return set()
        seen, stack = {start}, [start]
        while stack:
            b = stack.pop()
            for s in self.blocks[b].succ:
                if s is None or s in seen or s in removed_blocks:
                    continue
                if (b, s) in removed_edges:
                    continue
                seen.add(s)
                stack.append(s)
        return seen

    def reach_all(self):
        if self._reach is None:
            self._reach = self.reachable()
        return self._reach

    def edge_dominates(self, edge, target):
        """Every entry->target path uses edge (u,v)?  (parallel edges u->v
        with different labels are treated as one edge: conservative.)"""
        if target not in self.reach_all():
            return False
        u, v = edge
        if self.blocks[u].succ.count(v) > 1:
            return False
        return target not in self.reachable(removed_edges={edge})

    def block_dominates(self, a, target):
        if target not in self.reach_all():
            return False
        return a in self.doms().get(target, ())

    def doms(self):
        """block -> set of dominating blocks (iterative dataflow)."""
        d = self.__dict__.get("_doms")
        if d is not None:
            return d
        reach = self.reach_all()
        preds = self.preds()
        allb = set(reach)
        d = {b: set(allb) for b in reach}
        d[self.entry] = {self.entry}
        order = sorted(reach, reverse=True)   # clang numbers entry highest
        changed = True
        while changed:
            changed = False
            for b in order:
                if b == self.entry:
                    continue
                ps = [p for p in preds.get(b, []) if p in reach]
                new = set(allb)
                for p in ps:
                    new &= d[p]
                new.add(b)
                if new != d[b]:
                    d[b] = new
                    changed = True
        self._doms = d
        return d

    def loops(self):
        """Natural loops: list of (header, set(body blocks), [latches])."""
        l = self.__dict__.get("_loops")
        if l is not None:
            return l
        d = self.doms()
        preds = self.preds()
        by_header = {}
        for b in self.reach_all():
            for s in self.succs(b):
                if s in d.get(b, ()):       # back edge b -> s
                    body = by_header.setdefault(s, ({s}, []))
                    body[1].append(b)
                    stack = [b]
                    while stack:
                        x = stack.pop()
                        if x in body[0]:
                            continue
                        body[0].add(x)
                        stack.extend(p for p in preds.get(x, []) if p in d)
        l = [(h, bl[0], bl[1]) for h, bl in by_header.items()]
        self._loops = l
        return l

    # -- events / nodes --------------------------------------------------
    def events(self):
        for b in self.blocks.values():
            for ev in b.ev:
                yield b, ev

    def roots(self):
        """(block, kind, tree, event) for every root tree incl. terminator
        conditions; each tree exactly once."""
        for b in self.blocks.values():
            for ev in b.ev:
                if ev.get("iscond"):
                    continue
                if "e" in ev:
                    yield b, ev["k"], ev["e"], ev
                elif ev["k"] in ("decl", "ret"):
                    yield b, ev["k"], None, ev
            if b.cond is not None:
                yield b, "cond", b.cond, {"k": "cond", "loc": b.tloc,
                                          "src": b.condsrc}

    def nodes(self):
        """All marked nodes (calls, ctors, casts, subscripts, new, assigns)
        de-duplicated by their per-function id 'i'.  Returns list of
        (node, block_id, root_kind, root_event)."""
        if self._nodes is None:
            seen, out = set(), []
            for b, kind, tree, ev in self.roots():
                if tree is None:
                    continue
                for n in walk(tree):
                    i = n.get("i")
                    if i is None or i in seen:
                        continue
                    seen.add(i)
                    out.append((n, n.get("b", b.id), kind, ev))
            self._nodes = out
        return self._nodes

    def calls(self):
        for n, b, kind, ev in self.nodes():
            if n["k"] in ("call", "ctor"):
                yield n, b, kind, ev

    def returns(self):
        for b, ev in self.events():
            if ev["k"] == "ret":
                yield b, ev


class Facts:
    def __init__(self, files):
        self.fns = {}
        self.classes = {}
        self.enums = {}
        self.globals = {}
        self.units = []
        self.stats = {"units": 0, "functions": 0, "instantiations": 0,
                      "cfg_failures": 0, "dedup_dropped": 0}
        for f in files:
            with open(f) as fh:
                for line in fh:
                    r = json.loads(line)
                    k = r["rec"]
                    if k == "fn":
                        fn = Fn(r)
                        if fn.key in self.fns:
                            self.stats["dedup_dropped"] += 1
                            continue
                        self.fns[fn.key] = fn
                    elif k == "class":
                        self.classes.setdefault(r["name"], r)
                    elif k == "enum":
                        self.enums.setdefault(r["name"], r)
                    elif k == "global":
                        key = r["name"] + ("@" + r.get("infn", "") if r.get("staticlocal") else "")
                        self.globals.setdefault(key, r)
                    elif k == "unit":
                        self.units.append(r["file"])
                    elif k == "stats":
                        for s in ("units", "cfg_failures"):
                            self.stats[s] += r.get(s, 0)
        self.stats["functions"] = len(self.fns)
        self.stats["instantiations"] = sum(1 for f in self.fns.values() if f.inst)
        self.by_m = {}
        self.by_name = defaultdict(list)
        self.by_base = defaultdict(list)
        for fn in self.fns.values():
            if fn.m:
                self.by_m.setdefault(fn.m, fn)
            self.by_name[fn.name].append(fn)
            self.by_base[fn.base].append(fn)
        self._index_classes()
        self._cg = None

    # -- class hierarchy -------------------------------------------------
    def _index_classes(self):
        self.overriders = defaultdict(set)   # mangled base method -> mangled overriders (direct)
        self.method_by_m = {}
        self.subclasses = defaultdict(set)
        for c in self.classes.values():
            for b in c.get("bases", []):
                self.subclasses[b].add(c["name"])
            for m in c.get("methods", []):
                if m.get("m"):
                    self.method_by_m[m["m"]] = (c["name"], m)
                for o in m.get("overrides", []):
                    if o.get("m") and m.get("m"):
                        self.overriders[o["m"]].add(m["m"])

    def all_overriders(self, m):
        """Transitive overriders (mangled names) of a virtual method."""
        out, stack = set(), [m]
        while stack:
            x = stack.pop()
            for o in self.overriders.get(x, ()):
                if o not in out:
                    out.add(o)
                    stack.append(o)
        return out

    def all_subclasses(self, name):
        out, stack = set(), [name]
        while stack:
            x = stack.pop()
            for s in self.subclasses.get(x, ()):
                if s not in out:
                    out.add(s)
                    stack.append(s)
        return out

    def derives_from(self, cls, base):
        return cls == base or cls in self.all_subclasses(base)

    # -- call targets / call graph ------------------------------------------
    def targets(self, call):
        """Fn objects (with bodies) a call node may invoke."""
        m = call.get("m")
        out = []
        if m:
            f = self.by_m.get(m)
            if f is not None:
                out.append(f)
            if call.get("virt"):
                for o in self.all_overriders(m):
                    f = self.by_m.get(o)
                    if f is not None:
                        out.append(f)
        return out

    def callgraph(self):
        """key -> set of callee keys.  Direct + virtual (all overriders) +
        address-taken functions / lambdas mentioned in the body (callbacks)."""
        if self._cg is not None:
            return self._cg
        cg = {}
        for fn in self.fns.values():
            out = set()
            for b, kind, tree, ev in fn.roots():
                if tree is None:
                    continue
                for n in walk(tree):
                    k = n.get("k")
                    if k in ("call", "ctor"):
                        for t in self.targets(n):
                            out.add(t.key)
                    elif k in ("fn", "lambda"):
                        f = self.by_m.get(n.get("m") or "")
                        if f is not None:
                            out.add(f.key)
            cg[fn.key] = out
        self._cg = cg
        return cg

    def reach(self, entry_fns):
        cg = self.callgraph()
        seen = set()
        stack = [f.key for f in entry_fns]
        while stack:
            k = stack.pop()
            if k in seen:
                continue
            seen.add(k)
            stack.extend(cg.get(k, ()))
        return seen

    def find(self, base_name):
        """All function bodies whose template-stripped qualified name matches."""
        return list(self.by_base.get(base_name, []))

    def need(self, base_name, minimum=1):
        from .substrate import AnalysisBroken
        r = self.find(base_name)
        if len(r) < minimum:
            raise AnalysisBroken("anchor function not found: %s (found %d, need %d)"
                                 % (base_name, len(r), minimum))
        return r
