"""PRESENCE: a header bit that announces an optional block and the block itself
are written under the same condition, and the reader reads the block exactly
when the bit is set.

For each entry of rules/c11.json["presence"]:
  setter   the statement `flags |= <mask>` lies on *every* path that leaves the
           "present" edge of a test of the presence source (`GetMetadata()` or a
           local initialised from it) and on no path that leaves the "absent"
           edge;
  writer   the same for the call that writes the block, w.r.t. success returns;
  reader   the call that reads the block lies on every successful path that
           leaves the "bit set" edge of a test `flags & <mask>` and on none that
           leaves the other edge.
A bit that is not set for some present block (or a block not written for some
set bit) makes the reader parse the block's bytes as what follows: encode OK,
decode fails or returns other data.
"""
from .facts import walk, strip_targs
from .cfgutil import _strip_not, success_returns


def _short(n):
    return strip_targs(n.get("fn") or "").rsplit("::", 1)[-1]


def _presence_tests(fn, is_source):
    """[(block id, present-successor, absent-successor)] for conditions that test the presence source"""
    alias = set()
    for b, ev in fn.events():
        if ev["k"] == "decl" and "d" in (ev.get("var") or {}) and isinstance(ev.get("e"), dict):
            if any(is_source(n) for n in walk(ev["e"])):
                alias.add(ev["var"]["d"])
    out = []
    for b in fn.blocks.values():
        if b.cond is None or len(b.succ) != 2 or b.labels is not None:
            continue
        tree, pos = _strip_not(b.cond, True)
        if not isinstance(tree, dict):
            continue
        def operand(t):
            while isinstance(t, dict) and t.get("k") in ("icast", "cast", "copy", "paren") and "v" not in t:
                t = t.get("e")
            return isinstance(t, dict) and (is_source(t) or (t.get("k") == "var" and t.get("d") in alias))
        if tree.get("k") == "bin" and tree.get("op") in ("==", "!="):
            hit = operand(tree.get("l")) or operand(tree.get("r"))
        else:
            hit = operand(tree)         # the tested value itself, not a call that merely receives it
        if not hit:
            continue
        # `x != nullptr` / `x` -> present on true; `x == nullptr` / `!x` -> present on false
        if tree.get("k") == "bin" and tree.get("op") == "==":
            pos = not pos
        elif tree.get("k") == "bin" and tree.get("op") not in ("!=", "&"):
            continue
        out.append((b.id, b.succ[0] if pos else b.succ[1], b.succ[1] if pos else b.succ[0]))
    return out


def _check_site(fn, tests, site_blocks, exits):
    """-> (ok, why)"""
    if not tests:
        return False, "no test of the presence source found"
    if not site_blocks:
        return False, "the guarded statement was not found"
    for tid, present, absent in tests:
        if present is None or absent is None:
            continue
        # every path from the present edge to an exit passes a site block
        reach = fn.reachable(start=present, removed_blocks=set(site_blocks)) if present not in site_blocks else set()
        skip = reach & exits
        if skip:
            return False, "a path leaves the 'present' edge of `%s` and reaches the end without the statement" % (
                fn.blocks[tid].condsrc[:80])
        # no path from the absent edge reaches a site block (without going through the test again)
        reach_a = fn.reachable(start=absent, removed_blocks={tid})
        if (reach_a | {absent}) & set(site_blocks):
            return False, "the statement is reachable from the 'absent' edge of `%s`" % fn.blocks[tid].condsrc[:80]
        return True, "on every path from the 'present' edge of `%s`, on none from the other" % fn.blocks[tid].condsrc[:80]
    return False, "no usable test"


def _check_conditional(fn, is_source, mask):
    """`flags = <test of the source> ? MASK : 0` - the bit is a function of the presence test alone"""
    alias = set()
    for b, ev in fn.events():
        if ev["k"] == "decl" and "d" in (ev.get("var") or {}) and isinstance(ev.get("e"), dict):
            if any(is_source(n) for n in walk(ev["e"])) and not any(n.get("k") == "cond" for n in walk(ev["e"])):
                alias.add(ev["var"]["d"])

    def operand(t):
        while isinstance(t, dict) and t.get("k") in ("icast", "cast", "copy", "paren") and "v" not in t:
            t = t.get("e")
        return isinstance(t, dict) and (is_source(t) or (t.get("k") == "var" and t.get("d") in alias))
    for b, kind, tree, e in fn.roots():
        if tree is None:
            continue
        for x in walk(tree):
            if x.get("k") != "cond":
                continue
            def has_mask(t):
                return isinstance(t, dict) and any(isinstance(y, dict) and y.get("v") == mask for y in walk(t))
            mt, mf = has_mask(x.get("t")), has_mask(x.get("f"))
            if mt == mf:
                continue
            c, pos = _strip_not(x.get("c"), True)
            if not isinstance(c, dict):
                continue
            if c.get("k") == "bin" and c.get("op") in ("==", "!="):
                hit = operand(c.get("l")) or operand(c.get("r"))
                if c.get("op") == "==":
                    pos = not pos
            else:
                hit = operand(c)
            if not hit:
                return False, "the bit is selected by `%s`, which is not a plain test of the presence source" % (
                    e.get("src", "")[:80])
            if pos != mt:
                return False, "the bit is set on the 'absent' arm"
            return True, "bit selected by a conditional expression on the presence test alone"
    return False, "the statement that sets the bit was not found"


def _writer_ok(F, fn, site_blocks, is_source, callers, depth=0):
    tests = _presence_tests(fn, is_source)
    exits = {b.id for b, ev, c in success_returns(fn)}
    if tests:
        return _check_site(fn, tests, site_blocks, exits)
    if depth >= 2:
        return False, "no test of the presence source found within two call levels"
    cs = callers.get(fn.key, [])
    if not cs:
        return False, "no test of the presence source found"
    why = ""
    for cfn, cb in cs:
        ok, why = _writer_ok(F, cfn, {cb}, is_source, callers, depth + 1)
        if not ok:
            return False, "%s (in caller %s)" % (why, cfn.base)
    return True, why + " (test in the caller)"


def run_presence(ctx, rep, rule="PRESENCE"):
    from .core import Obligation, DISCHARGED, VIOLATION, load_table
    F = ctx.F
    tab = load_table("c11.json").get("presence", [])
    n = 0
    fired = False
    ctl_tab = [{"name": "control", "mask_value": 32768, "presence_call": "ps_has_block",
                "setter": "verif_control::presence_setter_bad", "writer": "verif_control::presence_writer_ok",
                "write_call": "presence_write_block", "reader": None, "control": True}]
    for ent in list(tab) + ctl_tab:
        is_ctl = bool(ent.get("control"))
        mask = ent["mask_value"]

        def is_source(n_, ent=ent):
            return n_.get("k") == "call" and _short(n_) == ent["presence_call"]
        # ---- setter
        for fn in F.need(ent["setter"]) if not is_ctl else F.find(ent["setter"]):
            sites = set()
            for b, kind, tree, e in fn.roots():
                if tree is None:
                    continue
                for x in walk(tree):
                    if x.get("k") == "bin" and x.get("op") == "|=" and any(
                            y.get("v") == mask for y in walk(x.get("r")) if isinstance(y, dict)):
                        sites.add(b.id)
            exits = {fn.exit}
            if sites:
                ok, why = _check_site(fn, _presence_tests(fn, is_source), sites, exits)
            else:
                ok, why = _check_conditional(fn, is_source, mask)
            n += 0 if is_ctl else 1
            fired |= is_ctl and not ok
            rep.add(Obligation(rule, fn.base, "flag bit %#x set iff the block is present" % mask, fn.loc,
                               DISCHARGED if ok else VIOLATION, control=is_ctl, detail=why))
        # ---- writer
        if "callers" not in F.__dict__.setdefault("_presence", {}):
            cm = {}
            for f_ in F.fns.values():
                for n_, b_, rk_, ev_ in f_.calls():
                    for t_ in F.targets(n_):
                        cm.setdefault(t_.key, []).append((f_, b_))
            F.__dict__["_presence"]["callers"] = cm
        callers = F.__dict__["_presence"]["callers"]
        enc_reach = set(ctx.reach("encode"))
        wfns = [f_ for f_ in F.fns.values() if (f_.key in enc_reach or (is_ctl and f_.name.startswith("verif_control::")))
                and any(strip_targs(n_.get("fn") or "").endswith(ent["write_call"]) for n_, b_, rk_, ev_ in f_.calls())]
        if not wfns and not is_ctl:
            from .substrate import AnalysisBroken
            raise AnalysisBroken("PRESENCE: no caller of %s on the encode path" % ent["write_call"])
        for fn in wfns:
            sites = {b for n_, b, rk, ev in fn.calls() if strip_targs(n_.get("fn") or "").endswith(ent["write_call"])}
            ok, why = _writer_ok(F, fn, sites, is_source, callers)
            n += 0 if is_ctl else 1
            rep.add(Obligation(rule, fn.base, "block written iff present", fn.loc,
                               DISCHARGED if ok or is_ctl else VIOLATION, control=is_ctl, detail=why))
        # ---- reader
        if ent.get("reader"):
            for fn in F.need(ent["reader"]):
                def is_flag(n_):
                    return n_.get("k") == "bin" and n_.get("op") == "&" and any(
                        isinstance(y, dict) and y.get("v") == mask for y in (n_.get("l"), n_.get("r")))
                tests = []
                falias = {}       # named bools: `const bool metadata_flag_set = (flags & MASK) != 0;`
                for b_, ev_ in fn.events():
                    if ev_["k"] == "decl" and "d" in (ev_.get("var") or {}) and isinstance(ev_.get("e"), dict) and \
                            any(is_flag(x) for x in walk(ev_["e"])):
                        t_, p_ = _strip_not(ev_["e"], True)
                        while isinstance(t_, dict) and t_.get("k") in ("icast", "cast", "copy", "paren") and "v" not in t_:
                            t_ = t_.get("e")
                        if isinstance(t_, dict) and t_.get("k") == "bin" and t_.get("op") == "==":
                            p_ = not p_
                        falias[ev_["var"]["d"]] = p_
                for b in fn.blocks.values():
                    if b.cond is None or len(b.succ) != 2 or b.labels is not None:
                        continue
                    tree, pos = _strip_not(b.cond, True)
                    tv = tree
                    while isinstance(tv, dict) and tv.get("k") in ("icast", "cast", "copy", "paren") and "v" not in tv:
                        tv = tv.get("e")
                    if isinstance(tv, dict) and tv.get("k") == "var" and tv.get("d") in falias:
                        if not falias[tv["d"]]:
                            pos = not pos
                        tests.append((b.id, b.succ[0] if pos else b.succ[1], b.succ[1] if pos else b.succ[0]))
                    elif isinstance(tree, dict) and any(is_flag(x) for x in walk(tree)):
                        if tree.get("k") == "bin" and tree.get("op") == "==":
                            pos = not pos
                        tests.append((b.id, b.succ[0] if pos else b.succ[1], b.succ[1] if pos else b.succ[0]))
                sites = {b for n_, b, rk, ev in fn.calls() if _short(n_) == ent["read_call"]}
                exits = {b.id for b, ev, c in success_returns(fn)}
                # version gates between the flag test and the read (legacy streams have no metadata) are part
                # of the format: only the 'absent' direction and dominance are required of the reader
                ok, why = True, ""
                if not tests or not sites:
                    ok, why = False, "flag test or read call not found"
                else:
                    for tid, present, absent in tests:
                        ra = fn.reachable(start=absent, removed_blocks={tid}) | {absent}
                        if ra & sites:
                            ok, why = False, "the block is read although the bit is clear"
                        elif not all(fn.edge_dominates((tid, present), s_) for s_ in sites):
                            ok, why = False, "the read is not confined to the 'bit set' edge"
                        else:
                            # a version gate between the flag test and the read is part of the format (legacy
                            # streams carry no metadata): a path may skip the read only through such a gate
                            vblocks = {vb.id for vb in fn.blocks.values() if vb.cond is not None and any(
                                (x.get("k") == "call" and "version" in _short(x).lower()) or
                                (x.get("k") in ("var", "field") and "version" in (x.get("n") or "").lower())
                                for x in walk(vb.cond))}
                            rp = fn.reachable(start=present, removed_blocks=sites | (vblocks - {present}))
                            if present in vblocks:
                                rp = set()
                            if rp & exits:
                                ok, why = False, "a successful path leaves the 'bit set' edge without reading the block"
                            else:
                                why = "read exactly on the 'bit set' edge of `%s`" % fn.blocks[tid].condsrc[:80]
                n += 1
                rep.add(Obligation(rule, fn.base, "block read iff the bit is set", fn.loc,
                                   DISCHARGED if ok else VIOLATION, detail=why))
    rep.control(rule, "presence_setter_bad", fired, "a bit set under a narrower condition than the block must be reported")
    return n
