"""REJECT-LEDGER: the set of constant-bound rejections of stream fields in the
readers is frozen.

A rejection is a branch outcome that can only reach failing returns and whose
condition (or a disjunct of it) compares a stream-derived value with a
constant: `if (n > K) return false;`.  Each one removes values from what the
reader accepts.  The ledger (rules/rejects.json) lists the rejections of the
reviewed tree keyed by the *field* (function that read it, variable), the
comparison and the constant; a rejection that is not listed narrows the accepted
format: a stream older writers (or the current writer) can produce may no
longer decode - unless the writer side refuses the same values, which no
static argument here can show, so it is reported.
"""
from .facts import walk, strip_targs
from .cfgutil import _strip_not, success_returns
from .taint import REL_OPS, NEG, FLIP, is_src


def _leaves(cond, failing_outcome):
    """[(tree, truth)] - each (tree evaluated to truth) alone causes the rejection."""
    tree, oc = _strip_not(cond, failing_outcome)
    if isinstance(tree, dict) and tree.get("k") == "bin" and tree.get("op") in ("||", "&&"):
        if (tree["op"] == "||" and oc) or (tree["op"] == "&&" and not oc):
            return _leaves(tree.get("l"), oc) + _leaves(tree.get("r"), oc)
        return []           # all parts together: not attributed to a single field
    return [(tree, oc)]


_REV = {}


def _caller_scopes(F, src, depth=3):
    """Class scopes of the (transitive) callers of a file-local helper: the helper reads the field on
    behalf of those classes, so the rejection belongs to them (a block of parsing moved into an
    anonymous-namespace function or a lambda keeps its ledger key)."""
    rev = _REV.get(id(F))
    if rev is None:
        rev = {}
        for k, outs in F.callgraph().items():
            for o in outs:
                rev.setdefault(o, set()).add(k)
        _REV.clear()
        _REV[id(F)] = rev
    scopes, seen, frontier = set(), {src.key}, [src.key]
    for _ in range(depth):
        nxt = []
        for k in frontier:
            for c in rev.get(k, ()):
                if c in seen or c not in F.fns:
                    continue
                seen.add(c)
                cf = F.fns[c]
                if cf.cls and not cf.is_lambda:
                    scopes.add(strip_targs(cf.cls))
                else:
                    nxt.append(c)
        frontier = nxt
    return scopes


def _scopes(eng, fn, lab, info):
    src_fn = strip_targs(info.get("fn") or fn.base)
    src = eng.F.fns.get(lab[1]) if isinstance(lab, tuple) and len(lab) > 1 else None
    if src is not None and (src.is_lambda or "(anonymous namespace)" in src.name) :
        cs = _caller_scopes(eng.F, src)
        if cs:
            return sorted(cs)
    return [src_fn.rsplit("::", 1)[0] if src_fn.count("::") >= 2 else src_fn]


def rejections(eng, fn):
    """[(key, site, text)] key = (field fn, field var, op, const)"""
    ft = eng.ft[fn.key]
    out = []
    succ_blocks = {b.id for b, ev, c in success_returns(fn)}
    for cb in fn.blocks.values():
        if cb.cond is None or len(cb.succ) != 2 or cb.labels is not None or cb.id not in fn.reach_all():
            continue
        for oc in (True, False):
            tgt = cb.succ[0] if oc else cb.succ[1]
            if tgt is None or cb.succ[0] == cb.succ[1]:
                continue
            reach = fn.reachable(start=tgt)
            if reach & succ_blocks or fn.exit not in reach:
                continue
            # void functions have no failing returns: success_returns lists every return as ok
            for tree, truth in _leaves(cb.cond, oc):
                a = ft.atom(tree, truth)
                if a is None:
                    continue
                l, op, r = a
                for side, other, o in ((l, r, op), (r, l, FLIP[op])):
                    if side is None or other is None:
                        continue
                    k = ft.const_of(other)
                    if k is None:
                        continue
                    sd = side
                    while isinstance(sd, dict) and sd.get("k") in ("icast", "cast", "copy") and "v" not in sd:
                        sd = sd.get("e")
                    if isinstance(sd, dict) and sd.get("k") == "bin" and sd.get("op") in ("&", "|", "^", "%", ">>", "<<"):
                        continue      # flag / alignment tests are not range bounds of the field
                    labs = [x for x in ft.labels(side, cb.id) if is_src(x)]
                    for lab in labs:
                        info = ft.label_info.get(lab) or eng.label_info.get(lab) or {}
                        if isinstance(sd, dict) and sd.get("k") == "field" and info.get("var") and \
                                info.get("dest_field") and info["var"] != sd.get("n") and lab[1] == fn.key:
                            continue    # read into another field of the same record (labels are per record)
                        cal = (info.get("callee") or "?").replace("draco::", "")
                        prim = cal.startswith(("DecoderBuffer::", "DecodeVarint", "DecodeSymbols")) or "BitDecoder" in cal
                        rd = "%s/%s" % (cal, info.get("iw", "?")) if prim else "record/%s" % info.get("iw", "?")
                        for scope in _scopes(eng, fn, lab, info):
                            key = "%s | %s | %s %d" % (scope.replace("draco::", ""), rd, o, int(k))
                            out.append((key, fn.site(cb.tloc or ""), cb.condsrc, info.get("var") or "value"))
    return out


def run_rejects(ctx, rep, rule="REJECT-LEDGER", dirs=None):
    """dirs: path fragments restricting which reader files are in scope for this property."""
    from .core import Obligation, DISCHARGED, VIOLATION, load_table
    from .taintcheck import engine
    eng = engine(ctx)
    tab = load_table("rejects.json")
    ledger = set(tab["ledger"])
    seen = {}
    for fn in eng.scope:
        is_ctl = fn.name.startswith("verif_control::")
        if is_ctl and not fn.name.split("::")[-1].startswith("reject_"):
            continue
        if not is_ctl and dirs and not any(d in fn.file for d in dirs):
            continue
        for key, site, txt, var in rejections(eng, fn):
            seen.setdefault((key, is_ctl), (fn.base, site, txt, var))
    n = 0
    fired = False
    def norm(k):
        scope, rd, cmp_ = k.split(" | ")
        op, c = cmp_.split(" ")
        c = int(c)
        if op == ">":
            return scope, rd, "ge", c + 1
        if op == ">=":
            return scope, rd, "ge", c
        if op == "<":
            return scope, rd, "le", c - 1
        if op == "<=":
            return scope, rd, "le", c
        return scope, rd, op, c
    led_n = [norm(k) for k in ledger]

    def covered(k):
        """listed, or no stricter than a listed rejection of the same field class (a NUM_ sentinel that grew)"""
        if k in ledger:
            return True
        s_, rd, kind, c = norm(k)
        for s2, rd2, kind2, c2 in led_n:
            if (s2, rd2, kind2) != (s_, rd, kind):
                continue
            if (kind == "ge" and c >= c2) or (kind == "le" and c <= c2):
                return True
        return False
    for (key, is_ctl), (fb, site, txt, var) in sorted(seen.items()):
        ok = covered(key)
        n += 0 if is_ctl else 1
        fired |= is_ctl and not ok
        rep.add(Obligation(rule, fb, "rejects " + key.split(" | ", 1)[1], site, DISCHARGED if ok else VIOLATION,
                           detail="listed in the ledger of reader-side rejections" if ok else
                           "new constant-bound rejection `%s` of stream field %s: the reader now refuses values it "
                           "accepted before (not in rules/rejects.json); a stream the writers can produce may no "
                           "longer decode" % (txt[:80], var), control=is_ctl, trivial=ok))
    rep.control(rule, "reject_new_bad", fired, "a rejection outside the ledger must be reported")
    return n

