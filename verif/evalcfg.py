"""Concrete evaluation of a CFG slice over a finite set of sample values
("values touched only through comparisons"): a small interpreter over E1
expression trees that knows integers, comparisons, arithmetic, ?: and
assignments to locals / fields.  Unknown conditions branch both ways."""
from .facts import strip_targs


RESOLVER = {"F": None}        # facts, set by the rule that wants calls of Status helpers evaluated


def _status_code_of_return(e):
    """'ok' | error-code name | None for the expression of a `return` in a Status function."""
    from .facts import walk
    if not isinstance(e, dict):
        return None
    for n in walk(e):
        if n.get("k") == "lit" and isinstance(n.get("n"), str) and n["n"].startswith("draco::Status::"):
            c = n["n"].rsplit("::", 1)[-1]
            return "ok" if c == "OK" else c
    for n in walk(e):
        if n.get("k") in ("call", "ctor") and strip_targs(n.get("fn") or "") in ("draco::OkStatus",):
            return "ok"
        if n.get("k") == "ctor" and strip_targs(n.get("fn") or "") == "draco::Status::Status" and not n.get("args"):
            return "ok"
    return None


def eval_status_call(call, env, depth=0):
    """Evaluate a call of a Status-returning draco function with a body under env: 'ok', an error code
    name, or None when it depends on something unknown."""
    F = RESOLVER["F"]
    if F is None or depth > 2 or not isinstance(call, dict) or call.get("k") != "call":
        return None
    if "Status" not in (call.get("ret") or ""):
        return None
    tg = [t for t in F.targets(call) if not call.get("virt")]
    if len(tg) != 1:
        return None
    callee = tg[0]
    cenv = {}
    for p, a in zip(callee.params, call.get("args") or []):
        if "d" in p:
            cenv[("v", p["d"])] = ev(a, env)
    for k_, v_ in env.items():
        if k_[0] == "f":
            cenv[k_] = v_          # fields of the same object (member helpers)
    codes = set()

    def on_block(b, e_):
        for x in b.ev:
            if x["k"] == "ret":
                c = _status_code_of_return(x.get("e"))
                if c is None:
                    t = x.get("e")
                    while isinstance(t, dict) and t.get("k") in ("copy", "icast"):
                        t = t.get("e")
                    if isinstance(t, dict) and t.get("k") == "var" and "d" in t:
                        c = e_.get(("st", t["d"]))
                codes.add(c)
        return True
    explore(callee, cenv, on_block, max_states=400)
    if len(codes) == 1 and None not in codes:
        return next(iter(codes))
    return None


def ev(t, env):
    """int value or None (unknown)."""
    if not isinstance(t, dict):
        return None
    k = t.get("k")
    if k == "call" and strip_targs(t.get("fn") or "") in ("draco::Status::ok", "draco::StatusOr::ok"):
        o = t.get("obj")
        while isinstance(o, dict) and o.get("k") in ("copy", "icast"):
            o = o.get("e")
        if isinstance(o, dict) and o.get("k") == "var" and "d" in o:
            st = env.get(("st", o["d"]))
            if st is not None:
                return 1 if st == "ok" else 0
        return None
    if "v" in t and k in ("lit", "icast", "cast", "bin", "un", "defarg") and t.get("v") is not None:
        return t["v"]
    if k == "call":
        if "v" in t and t.get("v") is not None:
            return t["v"]             # constant-evaluated call (std::numeric_limits<T>::max())
        short = strip_targs(t.get("fn") or "").rsplit("::", 1)[-1]
        return env.get(("call", short))
    if k == "var":
        if env.get(("name", t.get("n"))) is not None and t.get("n") is not None:
            return env[("name", t["n"])]
        if "v" in t and "d" not in t:
            return t["v"]
        if "d" in t:
            return env.get(("v", t["d"]))
        return t.get("v")
    if k == "field":
        return env.get(("f", t["n"]))
    if k in ("icast", "cast", "copy"):
        v = ev(t.get("e"), env)
        if v is None:
            return None
        if k != "copy" and t.get("iw") and not t.get("enum"):
            w = t["iw"]
            if w == 1:
                return 1 if v else 0
            v &= (1 << w) - 1
            if t.get("is") and v >= 1 << (w - 1):
                v -= 1 << w
        return v
    if k == "un":
        v = ev(t.get("e"), env)
        if v is None:
            return None
        op = t.get("op")
        if op == "!":
            return 0 if v else 1
        if op == "-":
            return -v
        if op == "~":
            return ~v
        return None
    if k == "bin":
        op = t.get("op")
        l, r = ev(t.get("l"), env), ev(t.get("r"), env)
        if op == "&&":
            if l == 0 or r == 0:
                return 0
            return 1 if (l and r) else None
        if op == "||":
            if l or r:
                return 1
            return 0 if (l == 0 and r == 0) else None
        if l is None or r is None:
            return None
        try:
            return {"<": lambda: int(l < r), "<=": lambda: int(l <= r), ">": lambda: int(l > r),
                    ">=": lambda: int(l >= r), "==": lambda: int(l == r), "!=": lambda: int(l != r),
                    "+": lambda: l + r, "-": lambda: l - r, "*": lambda: l * r,
                    "&": lambda: l & r, "|": lambda: l | r, "^": lambda: l ^ r,
                    "<<": lambda: l << r, ">>": lambda: l >> r,
                    "/": lambda: l // r if r else None, "%": lambda: l % r if r else None}[op]()
        except KeyError:
            return None
    if k == "cond":
        c = ev(t.get("c"), env)
        if c is None:
            return None
        return ev(t.get("t") if c else t.get("f"), env)
    return None


def _assign(ev_, env):
    """Apply the effect of one root event on env (simple scalar stores)."""
    k = ev_["k"]
    if k == "decl" and "e" in ev_ and "d" in ev_.get("var", {}):
        val = ev(ev_["e"], env)
        if val is not None or ("pin", ev_["var"]["d"]) not in env:
            env[("v", ev_["var"]["d"])] = val
        if "Status" in (ev_["var"].get("t") or ""):
            c = ev_["e"]
            while isinstance(c, dict) and c.get("k") in ("copy", "icast"):
                c = c.get("e")
            if isinstance(c, dict) and c.get("k") == "call" and strip_targs(c.get("fn") or "") == "draco::ToStatus" \
                    and c.get("args"):
                c = c["args"][0]
                while isinstance(c, dict) and c.get("k") in ("copy", "icast"):
                    c = c.get("e")
            env[("st", ev_["var"]["d"])] = eval_status_call(c, env)
    elif k == "expr" and isinstance(ev_.get("e"), dict):
        t = ev_["e"]
        if t.get("k") == "bin" and t.get("op") == "=":
            l = t.get("l")
            if isinstance(l, dict) and l.get("k") == "var" and "d" in l:
                env[("v", l["d"])] = ev(t.get("r"), env)
            elif isinstance(l, dict) and l.get("k") == "field":
                env[("f", l["n"])] = ev(t.get("r"), env)


def explore(fn, env0, on_block, max_states=4000, dead_edges=()):
    """DFS over (block, env); conditions that evaluate take one edge, unknown
    ones both.  on_block(block, env) -> False stops that path."""
    seen = set()
    stack = [(fn.entry, dict(env0))]
    n = 0
    while stack and n < max_states:
        bid, env = stack.pop()
        key = (bid, tuple(sorted((k, v) for k, v in env.items() if v is not None)))
        if key in seen:
            continue
        seen.add(key)
        n += 1
        b = fn.blocks[bid]
        for e in b.ev:
            if not e.get("iscond"):
                _assign(e, env)
        if on_block(b, env) is False:
            continue
        succ = b.succ
        if b.cond is not None and len(succ) == 2 and b.labels is None:
            c = ev(b.cond, env)
            if c is None:
                nxt = [s for s in succ if s is not None]
            else:
                s = succ[0] if c else succ[1]
                nxt = [s] if s is not None else []
        else:
            nxt = [s for s in succ if s is not None]
        for s in nxt:
            if (bid, s) in dead_edges:
                continue
            stack.append((s, dict(env)))
    return n
