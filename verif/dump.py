"""Debug aid: python3 -m verif.dump <template-stripped qualified name> [--json]
prints the CFG blocks, events and conditions of matching functions."""
import json, sys
from .check import Ctx


def short(t, d=0):
    if not isinstance(t, dict):
        return str(t)
    k = t.get("k")
    if k == "lit":
        return str(t.get("v"))
    if k in ("var", "param"):
        return t.get("n", "?")
    if k == "field":
        return (short(t["obj"], d + 1) + "." if t.get("obj") else "this.") + t.get("n", "?")
    if k in ("icast", "cast", "copy"):
        return short(t.get("e"), d)
    if k == "bin":
        return "(%s %s %s)" % (short(t.get("l"), d + 1), t.get("op"), short(t.get("r"), d + 1))
    if k == "un":
        return "%s(%s)" % (t.get("op"), short(t.get("e"), d + 1))
    if k in ("call", "ctor"):
        return "%s%s(%s)" % ((short(t["obj"], d + 1) + ".") if t.get("obj") else "", (t.get("fn") or t.get("type") or "?").split("::")[-1] if k == "call" else "new:" + str(t.get("type")),
                             ", ".join(short(a, d + 1) for a in t.get("args", [])))
    if k == "sub":
        return "%s[%s]" % (short(t.get("base"), d + 1), short(t.get("idx"), d + 1))
    return "<%s %s>" % (k, ",".join(x for x in t.keys() if x not in ("k", "i", "loc", "b")))


def main():
    name = sys.argv[1]
    ctx = Ctx("quick")
    for fn in ctx.F.find(name)[: 1 if "--all" not in sys.argv else 99]:
        print("==", fn.name, fn.loc, "entry", fn.entry, "exit", fn.exit)
        if "--json" in sys.argv:
            print(json.dumps(fn.j, indent=1)[:20000])
            continue
        for bid in sorted(fn.blocks, reverse=True):
            b = fn.blocks[bid]
            print(" B%d succ=%s term=%s cond=%s" % (bid, b.succ, b.term, b.condsrc))
            for ev in b.ev:
                if ev.get("iscond"):
                    continue
                print("    %-6s %-8s %s" % (ev["k"], ev.get("loc", ""), short(ev.get("e")) if "e" in ev else {k: v for k, v in ev.items() if k not in ("k", "loc")}))


main()
