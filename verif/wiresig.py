"""WIRESIG: the writer and the reader of one stream record agree on the
sequence (or at least the set) of primitive fields they put on / take off the
wire.

Each function of a (writer, reader) pair from rules/wiresig.json is reduced to
the set of *token sequences along its success paths* (back edges cut, blocks
behind a legacy version gate removed on the reader side, paths that end in a
failing return dropped).  Tokens are type-directed: FIX<n> (Encode<T> /
Decode<T>, n = sizeof T), BYTES (pointer + length), VARINT<bits><u|s>,
BITS<n>, BITSTART<sized|unsized>, BITEND, SYMBOLS, SUB(<pair id>) for a call
of another paired function, CODER(<name>) for the framing call of a bit / symbol
coder.  Helper callees that do I/O and are not paired themselves are inlined.

Comparison mode per pair (frozen in the table from what holds on the reviewed
tree, strictest first): "paths" - equal sets of path sequences; "kinds" -
equal sets of token kinds (used where one side loops and the other recurses).
"""
import re

from .facts import walk, strip_targs
from .cfgutil import classify_return
from .dropped import ret_kind
from .minconsume import SIZES
from .selectors import _version_truth

W_PRIMS = {"draco::EncoderBuffer::Encode", "draco::EncodeVarint", "draco::EncoderBuffer::EncodeLeastSignificantBits32",
           "draco::EncoderBuffer::StartBitEncoding", "draco::EncoderBuffer::EndBitEncoding", "draco::EncodeSymbols"}
R_PRIMS = {"draco::DecoderBuffer::Decode", "draco::DecodeVarint", "draco::DecoderBuffer::DecodeLeastSignificantBits32",
           "draco::DecoderBuffer::StartBitDecoding", "draco::DecoderBuffer::EndBitDecoding", "draco::DecodeSymbols"}
INT_BITS = {"unsigned char": (8, "u"), "signed char": (8, "s"), "char": (8, "s"), "unsigned short": (16, "u"),
            "short": (16, "s"), "unsigned int": (32, "u"), "int": (32, "s"), "unsigned long": (64, "u"),
            "long": (64, "s"), "unsigned long long": (64, "u"), "long long": (64, "s")}
MAX_SEQS = 4000


def _clean_type(t):
    t = t.replace("*", "").replace("&", "").replace("const ", "").replace(" const", "").strip()
    if t.startswith("std::array<"):
        t = t[len("std::array<"):].split(",")[0].strip()
    if t.startswith("draco::IndexType<"):
        t = t[len("draco::IndexType<"):].split(",")[0].strip()
    return t


def _lit(t):
    while isinstance(t, dict) and t.get("k") in ("icast", "cast", "copy") and "v" not in t:
        t = t.get("e")
    if isinstance(t, dict) and "v" in t:
        return t["v"]
    return None


def prim_token(n):
    base = strip_targs(n.get("fn") or "")
    pt = n.get("pt") or []
    args = n.get("args") or []
    if base in ("draco::EncoderBuffer::Encode", "draco::DecoderBuffer::Decode"):
        if len(pt) == 1:
            t = _clean_type(pt[0])
            sz = SIZES.get(t)
            return "FIX%s" % (sz if sz else "<" + t.split("::")[-1] + ">")
        return "BYTES"
    if base in ("draco::EncodeVarint", "draco::DecodeVarint"):
        t = _clean_type(pt[0]) if pt else "?"
        bits = INT_BITS.get(t)
        return "VARINT%s%s" % (bits if not bits else "%d%s" % bits, "") if bits else "VARINT<%s>" % t
    if base in ("draco::EncoderBuffer::EncodeLeastSignificantBits32", "draco::DecoderBuffer::DecodeLeastSignificantBits32"):
        v = _lit(args[0]) if args else None
        return "BITS%s" % (v if v is not None else "n")
    if base == "draco::EncoderBuffer::StartBitEncoding":
        v = _lit(args[1]) if len(args) > 1 else None
        return "BITSTART(%s)" % ("sized" if v else "unsized" if v is not None else "?")
    if base == "draco::DecoderBuffer::StartBitDecoding":
        v = _lit(args[0]) if args else None
        return "BITSTART(%s)" % ("sized" if v else "unsized" if v is not None else "?")
    if base in ("draco::EncoderBuffer::EndBitEncoding", "draco::DecoderBuffer::EndBitDecoding"):
        return "BITEND"
    if base in ("draco::EncodeSymbols", "draco::DecodeSymbols"):
        return "SYMBOLS"
    return None


def normalise(name):
    """Writer- and reader-side names of the same thing become equal:
    MetadataEncoder::EncodeMetadata / MetadataDecoder::DecodeMetadata ->
    MetadataCoder::CodeMetadata."""
    n = name.replace("draco::", "")
    for a, b in (("Encoders", "Coders"), ("Decoders", "Coders"), ("Encoder", "Coder"), ("Decoder", "Coder"),
                 ("Encoding", "Coding"), ("Decoding", "Coding"), ("Encoded", "Coded"), ("Decoded", "Coded"),
                 ("Encode", "Code"), ("Decode", "Code")):
        n = n.replace(a, b)
    # framing call of a bit / symbol coder: EndEncoding(buffer) on the writer, StartDecoding(buffer) on the reader
    for a in ("::EndCoding", "::StartCoding"):
        if n.endswith(a):
            n = n[:-len(a)] + "::Frame"
    return n


class WireSig:
    def __init__(self, F, table, cur_version):
        self.F, self.tab, self.cur = F, table, cur_version
        self.alias = dict(table.get("alias", {}))      # normalised name -> canonical normalised name
        self.inline = set(table.get("inline", []))
        self.opaque = set()       # paired functions stay opaque (a CALL token); every other I/O helper is inlined
        for p in table["pairs"]:
            for side in ("writer", "reader"):
                if p.get(side) is None:
                    continue
                if not isinstance(p[side], str):
                    self.inline |= set(p[side][1:])
                    self.opaque.add(p[side][0])
                else:
                    self.opaque.add(p[side])
        self.opaque -= self.inline
        self._io = None
        self._memo = {}

    def call_token(self, base):
        n = normalise(base)
        short = n.rsplit("::", 1)[-1]
        ma = self.tab.get("method_alias", {})
        if short in ma:
            return "CALL(%s)" % ma[short]
        return "CALL(%s)" % self.alias.get(n, n)

    # -- which functions do stream I/O -----------------------------------------
    def does_io(self, fn):
        if self._io is None:
            self._io = getattr(self.F, "_wiresig_io", None)
        if self._io is None:
            F = self.F
            direct = set()
            for f in F.fns.values():
                for n, b, rk, ev in f.calls():
                    if strip_targs(n.get("fn") or "") in W_PRIMS | R_PRIMS:
                        direct.add(f.key)
                        break
            cg = F.callgraph()
            io = set(direct)
            changed = True
            while changed:
                changed = False
                for k, outs in cg.items():
                    if k not in io and outs & io and k in F.fns and "/draco/" in F.fns[k].file:
                        io.add(k)
                        changed = True
            self._io = io
            self.F._wiresig_io = io
        return fn.key in self._io

    # -- tokens of one block --------------------------------------------------------
    def block_tokens(self, fn, self_names=()):
        out = {}
        for n, b, rk, ev in sorted(fn.calls(), key=lambda x: x[0].get("i", 0)):
            if n.get("k") != "call":
                continue
            base = strip_targs(n.get("fn") or "")
            tok = prim_token(n)
            if tok is None and base in ("draco::DecoderBuffer::Advance", "draco::EncoderBuffer::Resize"):
                tok = "BYTES"          # a raw window of the input is consumed / was written in place
            if tok is None:
                tgts = [t for t in self.F.targets(n) if "/draco/" in t.file]
                if not tgts or not any(self.does_io(t) for t in tgts):
                    continue
                if base.startswith(("draco::EncoderBuffer::", "draco::DecoderBuffer::")) and \
                        base in W_PRIMS | R_PRIMS:
                    continue        # the buffer primitives themselves; a private helper of a paired buffer
                                    # method (size back-patching moved out of EndBitEncoding) is followed
                if base in self_names and base not in self.inline:
                    others = [t for t in tgts if t.key != fn.key and t.base == base]
                    # delegation to an overload of the same name is inlined; true recursion is a token
                    tok = ("INLINE", others[0]) if others and not n.get("virt") else "CALL(self)"
                elif base in self.inline and len(tgts) >= 1:
                    same = [t for t in tgts if t.base == base] or tgts
                    tok = ("INLINE", same[0])
                elif base not in self.opaque and len(tgts) == 1 and not n.get("virt") and \
                        not any(t.base in self.opaque for t in tgts):
                    tok = ("INLINE", tgts[0])       # unpaired helper: transparent
                else:
                    tok = self.call_token(base)
            out.setdefault(b, []).append(tok)
        return out

    def live(self, fn, reader):
        dead = set()
        from . import selectors as SEL
        SEL.VERSION_LOCALS["ids"] = SEL.version_locals(fn)
        if reader:
            from .cfgutil import _strip_not
            for b in fn.blocks.values():
                if b.cond is None or len(b.succ) != 2:
                    continue
                # a stream read that failed never belongs to a success path: clang joins `a && b && c`
                # conditions with temporaries into one value, so the failing operand edges must be cut here
                t_, pos_ = _strip_not(b.cond, True)
                if isinstance(t_, dict) and t_.get("k") == "call" and t_.get("ret") == "bool" and \
                        (prim_token(t_) is not None or strip_targs(t_.get("fn") or "") in R_PRIMS or
                         any(self.does_io(x) for x in self.F.targets(t_) if "/draco/" in x.file)):
                    fail_succ = b.succ[1] if pos_ else b.succ[0]
                    if fail_succ is not None and b.succ[0] != b.succ[1]:
                        dead.add((b.id, fail_succ))
                    continue
                tv = _version_truth(b.cond, self.cur)
                if tv is None:
                    continue
                d = b.succ[1] if tv else b.succ[0]
                if d is not None and b.succ[0] != b.succ[1]:
                    dead.add((b.id, d))
        return dead

    def paths(self, fn, reader, self_names=(), depth=0):
        """(set of token tuples along success paths, truncated?)"""
        key = (fn.key, reader)
        if key in self._memo:
            return self._memo[key]
        self._memo[key] = ({()}, False)     # recursion cut
        dead = self.live(fn, reader)
        toks = self.block_tokens(fn, self_names)
        back = set()
        extra = {}                 # latch -> loop exits: one iteration, then leave the loop
        for h, body, latches in fn.loops():
            exits = [x for x in fn.succs(h) if x not in body]
            for l in latches:
                back.add((l, h))
                extra.setdefault(l, [])
                extra[l] += [x for x in exits if x not in extra[l]]
        removed = dead | back
        livebl = fn.reachable(removed_edges=dead)
        fail_blocks = set()
        for b, ev in fn.returns():
            if classify_return(fn, b, ev) == "fail":
                fail_blocks.add(b.id)

        def nxt(b):
            out = [s for s in fn.succs(b) if (b, s) not in removed and s in livebl]
            for x in extra.get(b, ()):
                if x in livebl and x not in out and (b, x) not in dead:
                    out.append(x)
            return out
        # topological order over the acyclic live graph (iterative DFS post-order)
        order, seen = [], {fn.entry}
        stack = [(fn.entry, iter(nxt(fn.entry)))]
        while stack:
            x, it = stack[-1]
            adv = False
            for s_ in it:
                if s_ not in seen:
                    seen.add(s_)
                    stack.append((s_, iter(nxt(s_))))
                    adv = True
                    break
            if not adv:
                order.append(x)
                stack.pop()
        order.reverse()
        # `bool ok = false; switch (..) { case A: ok = Read..(); break; default: ok = false; } return ok;`
        # - the value of a returned local is tracked along each path so that paths returning a literal
        #   false are dropped like explicit `return false`
        ret_var = {}
        for b_, ev_ in fn.returns():
            t_ = ev_.get("e")
            while isinstance(t_, dict) and t_.get("k") in ("copy", "icast", "cast"):
                t_ = t_.get("e")
            if isinstance(t_, dict) and t_.get("k") == "var" and "d" in t_:
                ret_var[b_.id] = t_["d"]
        tracked = set(ret_var.values())
        assigns = {}
        if tracked:
            for blk_, rk_, tree_, ev_ in fn.roots():
                if rk_ == "decl" and (ev_.get("var") or {}).get("d") in tracked and isinstance(ev_.get("e"), dict):
                    e_ = ev_["e"]
                    assigns.setdefault(blk_.id, []).append((ev_["var"]["d"], e_.get("v") if e_.get("k") == "lit" else None))
                if tree_ is None:
                    continue
                for n_ in walk(tree_):
                    if n_.get("k") == "bin" and n_.get("op") == "=" and isinstance(n_.get("l"), dict) and \
                            n_["l"].get("k") == "var" and n_["l"].get("d") in tracked:
                        r_ = n_.get("r")
                        while isinstance(r_, dict) and r_.get("k") in ("icast", "cast", "copy") and "v" not in r_:
                            r_ = r_.get("e")
                        val = r_.get("v") if isinstance(r_, dict) and r_.get("k") in ("lit", "icast", "cast") and "v" in r_ else None
                        assigns.setdefault(n_.get("b", blk_.id), []).append((n_["l"]["d"], val))
        seqs = {fn.entry: {((), ())}}
        trunc = False
        result = set()
        for b in order:
            cur = seqs.pop(b, None)
            if not cur:
                continue
            bt = toks.get(b, [])
            for t in bt:
                if isinstance(t, tuple):          # inline helper
                    sub, tr = self.paths(t[1], reader, self_names, depth + 1)
                    trunc |= tr
                    cur = {(s + x, st) for s, st in cur for x in sub}
                else:
                    cur = {(s + (t,), st) for s, st in cur}
                if len(cur) > MAX_SEQS:
                    trunc = True
                    cur = set(list(cur)[:MAX_SEQS])
            for d_, v_ in assigns.get(b, ()):
                cur = {(s, tuple(sorted([kv for kv in st if kv[0] != d_] + [(d_, -1 if v_ is None else v_)])))
                       for s, st in cur}
            succs = nxt(b)
            if b in fail_blocks:
                continue
            if fn.exit in succs:
                rv = ret_var.get(b)
                for s, st in cur:
                    if rv is not None and dict(st).get(rv) == 0:
                        continue              # returns a local known to be false on this path
                    result.add(s)
            for s_ in succs:
                if s_ == fn.exit:
                    continue
                tgt = seqs.setdefault(s_, set())
                tgt |= cur
                if len(tgt) > MAX_SEQS:
                    trunc = True
        res = (result or {()}, trunc)
        self._memo[key] = res
        return res

    def kinds(self, fn, reader, self_names=()):
        p, tr = self.paths(fn, reader, self_names)
        return {t for s in p for t in s}

    def signature(self, names, reader):
        """Union over the named functions (and their instantiations)."""
        names = [names] if isinstance(names, str) else list(names)
        allp, trunc, found = set(), False, 0
        per_inst = []
        for nm in names[:1]:
            for fn in self.F.find(nm):
                found += 1
                p, tr = self.paths(fn, reader, tuple(names))
                trunc |= tr
                allp |= p
                per_inst.append((fn.name, p))
        return allp, trunc, found, per_inst


def render_paths(ps, limit=12):
    out = [" ".join(p) if p else "(nothing)" for p in sorted(ps)]
    return out[:limit] + (["... %d more" % (len(out) - limit)] if len(out) > limit else [])


def compare(ws, pair):
    """-> (ok, mode_used, detail dict)"""
    wp, wt, wf, _ = ws.signature(pair["writer"], False)
    rp, rt, rf, _ = ws.signature(pair["reader"], True)
    wp, rp = wp - {()}, rp - {()}
    # a bit count that is not a literal on one side (hoisted into a local) matches any literal on the other
    if any(t == "BITSn" for s_ in wp | rp for t in s_):
        gen = lambda ps: {tuple("BITSn" if re.match(r"BITS\d+$", t) else t for t in s_) for s_ in ps}
        wp, rp = gen(wp), gen(rp)
    wk = {t for s in wp for t in s}
    rk = {t for s in rp for t in s}
    mode = pair.get("mode", "paths")
    det = {"writer_fns": wf, "reader_fns": rf, "writer_paths": len(wp), "reader_paths": len(rp),
           "truncated": bool(wt or rt)}
    if wf == 0 or rf == 0:
        return None, mode, det
    if mode == "paths" and (wt or rt):
        mode = "kinds"
    if mode == "paths":
        ok = wp == rp
        if not ok:
            det["writer_only"] = render_paths(wp - rp, 6)
            det["reader_only"] = render_paths(rp - wp, 6)
    elif mode == "subset":
        ok = wp <= rp
        if not ok:
            det["writer_only"] = render_paths(wp - rp, 6)
    else:
        w_only = wk - rk - set(pair.get("writer_only", []))
        r_only = rk - wk - set(pair.get("reader_only", []))
        ok = not w_only and not r_only
        if not ok:
            det["writer_only"] = sorted(w_only)
            det["reader_only"] = sorted(r_only)
    det["reader_signature"] = render_paths(rp, 400)
    det["writer_kinds"] = sorted(wk)
    return ok, mode, det


VERSIONS = [(1, 1), (1, 2), (1, 3), (2, 0), (2, 1), (2, 2), (2, 3)]


def reader_signatures(F, tab, pair):
    """{version string: rendered reader signature} for every released bitstream version."""
    out = {}
    for (a, b) in VERSIONS:
        ws = WireSig(F, tab, (a << 8) | b)
        rp, rt, rf, _ = ws.signature(pair["reader"], True)
        rp = rp - {()}
        sig = render_paths(rp, 400)
        if len(sig) > 40 or rt:
            sig = ["KINDS " + " ".join(sorted({t for s_ in rp for t in s_}))]
        out["%d.%d" % (a, b)] = sig
    return out


def run_wiresig(ctx, rep, rule="WIRESIG", ids=None, ledger=False):
    from .core import Obligation, DISCHARGED, VIOLATION, load_table
    tab = load_table("wiresig.json")
    led = load_table("format_ledger.json")["constants"]
    cur = (led["draco::kDracoPointCloudBitstreamVersionMajor"] << 8) | led["draco::kDracoPointCloudBitstreamVersionMinor"]
    ws = getattr(ctx, "_wiresig", None)
    if ws is None:
        ws = ctx._wiresig = WireSig(ctx.F, tab, cur)
    n = 0
    if not ledger:
        for cid, want in (("bad", False), ("ok", True)):
            cp = {"id": "control_" + cid, "writer": "verif_control::ws_%s_write" % cid,
                  "reader": "verif_control::ws_%s_read" % cid}
            ok, mode, det = compare(ws, cp)
            rep.control(rule, "ws_%s pair%s" % (cid, "" if not want else " (negative)"), ok is want,
                        "varint-vs-byte length must be reported" if not want else "same record must agree")
    for p in tab["pairs"]:
        if ids is not None and p["id"] not in ids:
            continue
        if p.get("writer") is None and not ledger:
            continue
        w0 = p["writer"] if isinstance(p["writer"], str) or p["writer"] is None else p["writer"][0]
        r0 = p["reader"] if isinstance(p["reader"], str) else p["reader"][0]
        if not ledger:
            ok, mode, det = compare(ws, p)
            if ok is None:
                rep.broken("%s pair %s: function not found (writer bodies %d, reader bodies %d)" % (
                    rule, p["id"], det["writer_fns"], det["reader_fns"]))
                continue
            n += 1
            rep.add(Obligation(rule, p["id"], "%s <-> %s" % (w0.replace("draco::", ""), r0.replace("draco::", "")),
                               (ctx.F.find(r0) or ctx.F.find(w0))[0].loc,
                               DISCHARGED if ok else VIOLATION,
                               detail=("writer and reader agree (%s mode, %d/%d path sequences)" % (
                                   mode, det["writer_paths"], det["reader_paths"])) if ok else
                               "writer and reader disagree on the wire record (%s mode): only the writer has %s; "
                               "only the reader has %s" % (mode, det.get("writer_only"), det.get("reader_only")),
                               extra={"mode": mode}))
        else:
            if not ctx.F.find(r0):
                rep.broken("%s pair %s: reader %s not found" % (rule, p["id"], r0))
                continue
            frozen = tab.get("ledger", {}).get(p["id"])
            if frozen is None:
                rep.broken("%s: no frozen reader signature for pair %s" % (rule, p["id"]))
                continue
            now = reader_signatures(ctx.F, tab, p)
            for v, sig in sorted(now.items()):
                fz = frozen.get(v, frozen.get("current"))
                if p.get("mode") == "kinds":
                    # the reader iterates / buffers where the writer recurses: record boundaries are not stable under
                    # restructuring (a peeled first iteration), the set of fields taken off the wire is
                    kinds_ = lambda xs: {("BITSn" if re.match(r"BITS\d+$", t) else t) for x in xs for t in x.split()
                                         if t != "KINDS"}
                    same = kinds_(fz) == kinds_(sig)
                elif any("BITSn" in x.split() for x in sig) or any("BITSn" in x.split() for x in fz):
                    g_ = lambda xs: sorted({" ".join(sorted(set("BITSn" if re.match(r"BITS\d+$", t) else t for t in x.split()))
                                                     if x.startswith("KINDS") else
                                                     " ".join("BITSn" if re.match(r"BITS\d+$", t) else t for t in x.split()))
                                            for x in xs})
                    same = g_(fz) == g_(sig)
                else:
                    same = sorted(fz) == sorted(sig)
                n += 1
                rep.add(Obligation(rule, p["id"], "reader record for version %s streams (%s)" % (v, r0.replace("draco::", "")),
                                   ctx.F.find(r0)[0].loc, DISCHARGED if same else VIOLATION,
                                   detail="equals the frozen record (%d sequences)" % len(sig) if same else
                                   "the record the reader takes off the wire for bitstream version %s changed: now has %s, "
                                   "no longer has %s" % (v, sorted(set(sig) - set(fz))[:4], sorted(set(fz) - set(sig))[:4]),
                                   trivial=(v != "2.3" and fz == frozen.get("2.3"))))
    return n
