"""Entry point: python3 -m verif.check <property id> [--tier quick|thorough]"""
import argparse
import importlib
import os
import sys
import traceback

from .substrate import Substrate, AnalysisBroken, EXIT_BROKEN, log
from .facts import Facts
from .core import Report, load_table


class Ctx:
    def __init__(self, tier):
        self.tier = tier
        self.sub = Substrate()
        self._F = None
        self._reach = {}
        self.entries = load_table("entry_points.json")

    @property
    def F(self):
        if self._F is None:
            self._F = Facts(self.sub.facts_files())
            if self._F.stats["cfg_failures"]:
                raise AnalysisBroken("%d CFGs could not be built" % self._F.stats["cfg_failures"])
        return self._F

    def entry_fns(self, which):
        fns = []
        for name in self.entries[which]:
            fns += self.F.need(name)
        return fns

    def reach(self, which):
        """Keys of functions reachable from the 'encode' / 'decode' entry set."""
        if which not in self._reach:
            self._reach[which] = self.F.reach(self.entry_fns(which))
        return self._reach[which]

    def controls(self, prefix):
        """Control functions verif_control::<prefix>*"""
        return [f for f in self.F.fns.values()
                if f.name.startswith("verif_control::" + prefix)]

    def stats(self):
        s = dict(self.F.stats)
        s["tree_hash"] = self.sub.hash
        return {"units": s["units"], "functions": s["functions"],
                "instantiations": s["instantiations"],
                "functions_deduplicated": s["dedup_dropped"],
                "tree_hash": s["tree_hash"]}


def thorough_extras(ctx, rep, pid):
    """Thorough tier: the mutation self-test of this property (evidence only:
    it never changes the exit code, a patch may legitimately stop applying on
    an edited tree) and the E1<->E2 cross-check of the reachable sets."""
    from . import selftest
    ms = [m for m in selftest.load() if m["property"] == pid]
    if ms:
        from concurrent.futures import ThreadPoolExecutor
        with ThreadPoolExecutor(4) as ex:
            res = list(ex.map(selftest.run_one, ms))
        app = [r for r in res if r["outcome"] != "not-applicable"]
        rep.extra_cov["selftest"] = {
            "mutants_applied": sum(1 for r in app if not r["equivalent"]),
            "mutants_detected": sum(1 for r in app if r["outcome"] == "detected"),
            "equivalent_edits_applied": sum(1 for r in app if r["equivalent"]),
            "equivalent_edits_silent": sum(1 for r in app if r["outcome"] == "silent"),
            "results": [{k: r.get(k) for k in ("id", "what", "outcome", "wall_s")} for r in res],
        }
        for r in res:
            print("  selftest %-5s %-12s %s" % (r["id"], r["outcome"], r["what"][:80]))
    # independent corpora (evidence only): seeded breaking changes that attack this property must be
    # reported, behaviour-preserving refactorings must leave this check silent
    try:
        rep.extra_cov["corpora"] = run_corpora(pid)
        for k, v in rep.extra_cov["corpora"].items():
            print("  corpus %-10s %s" % (k, {x: v[x] for x in v if x != "results"}))
    except Exception as e:      # evidence only
        rep.extra_cov["corpora"] = {"error": str(e)}
    if pid in ("C02", "C06", "C19"):
        try:
            from .props.C19 import graph, entry_mangled
            from .core import load_table
            g = graph(ctx)
            tab = load_table("c19.json")
            ents = [e for e in entry_mangled(ctx, tab) if g.resolve(e) in g.fns]
            r2 = g.reach(ents)
            r1 = set(ctx.reach("encode")) | set(ctx.reach("decode"))
            m1 = {ctx.F.fns[k].m for k in r1 if k in ctx.F.fns and ctx.F.fns[k].m}
            in_ir = {m for m in m1 if g.resolve(m) in g.fns}
            missing = sorted(m for m in in_ir if g.resolve(m) not in r2)
            rep.extra_cov["e1_e2_crosscheck"] = {
                "e1_reachable_with_ir_body": len(in_ir), "of_which_missing_from_e2_reach": len(missing),
                "sample_missing": missing[:10],
                "note": "every function E1 finds reachable (and that has an IR body) should be in E2's "
                        "coarser reach set"}
        except Exception as e:      # evidence only
            rep.extra_cov["e1_e2_crosscheck"] = {"error": str(e)}


def run_corpora(pid):
    import json, shutil, subprocess, tempfile
    from concurrent.futures import ThreadPoolExecutor
    from . import selftest
    V = selftest.VERIF
    jobs = []
    sd = os.path.join(V, "seeded")
    for d in sorted(os.listdir(sd)) if os.path.isdir(sd) else []:
        mp = os.path.join(sd, d, "meta.json")
        if os.path.exists(mp) and json.load(open(mp)).get("property") == pid:
            jobs.append(("seeded", d, os.path.join(sd, d, "patch.diff")))
    rd = os.path.join(V, "refactors")
    # refactorings that were aimed at this property's code (tools/evalrefactor.py --rerun runs the whole corpus
    # against every property; here the per-property slice keeps the thorough tier within minutes)
    suffix = "-c%s" % pid[1:].lower()
    for d in sorted(os.listdir(rd)) if os.path.isdir(rd) else []:
        if d.endswith(suffix) and os.path.exists(os.path.join(rd, d, "patch.diff")):
            jobs.append(("refactors", d, os.path.join(rd, d, "patch.diff")))

    def one(job):
        kind, name, patch = job
        tmp = tempfile.mkdtemp(prefix="verif-corpus-")
        try:
            root = os.path.join(tmp, "repo")
            selftest.make_copy(root)
            r = subprocess.run("patch -p1 -s < %s" % patch, shell=True, cwd=root, stdout=subprocess.PIPE,
                               stderr=subprocess.STDOUT, text=True)
            if r.returncode != 0:
                return kind, name, "patch does not apply"
            env = dict(os.environ, VERIF_REPO=root, VERIF_EVIDENCE_DIR=os.path.join(tmp, "ev"),
                       VERIF_CACHE_DIR=os.path.join(tmp, "cache"))
            r = subprocess.run([sys.executable, "-m", "verif.check", pid, "--tier", "quick"], cwd=V, env=env,
                               stdout=subprocess.PIPE, stderr=subprocess.STDOUT, text=True)
            return kind, name, {0: "silent", 1: "reported", 2: "analysis-broken"}.get(r.returncode, "error")
        finally:
            shutil.rmtree(tmp, ignore_errors=True)
    with ThreadPoolExecutor(4) as ex:
        res = list(ex.map(one, jobs))
    out = {}
    for kind in ("seeded", "refactors"):
        rs = [(n, o) for k, n, o in res if k == kind]
        want = "reported" if kind == "seeded" else "silent"
        out[kind] = {"total": len(rs), want: sum(1 for n, o in rs if o == want),
                     "results": [{"id": n, "outcome": o} for n, o in rs]}
    return out


def main():
    ap = argparse.ArgumentParser()
    ap.add_argument("pid")
    ap.add_argument("--tier", default=os.environ.get("VERIF_TIER", "quick"),
                    choices=["quick", "thorough"])
    a = ap.parse_args()
    try:
        mod = importlib.import_module("verif.props." + a.pid)
    except ImportError as e:
        print("no check for %s: %s" % (a.pid, e))
        return EXIT_BROKEN
    rep = Report(a.pid, a.tier, getattr(mod, "LEVEL", "other"))
    try:
        ctx = Ctx(a.tier)
        mod.run(ctx, rep)
        rep.stats.update(ctx.stats())
        if a.tier == "thorough" and not os.environ.get("VERIF_REPO"):
            thorough_extras(ctx, rep, a.pid)
        return rep.finalize()
    except AnalysisBroken as e:
        print("ANALYSIS-BROKEN: %s" % e)
        return EXIT_BROKEN
    except Exception:
        traceback.print_exc()
        print("ANALYSIS-BROKEN: internal error in the checker")
        return EXIT_BROKEN


if __name__ == "__main__":
    sys.exit(main())
