"""Entry point: python3 -m verif.check <property id> [--tier quick|thorough]"""
import argparse
import importlib
import os
import sys
import traceback

from .substrate import Substrate, AnalysisBroken, EXIT_BROKEN, log
from .facts import Facts
from .core import Report, load_table


class Ctx:
    def __init__(self, tier):
        self.tier = tier
        self.sub = Substrate()
        self._F = None
        self._reach = {}
        self.entries = load_table("entry_points.json")

    @property
    def F(self):
        if self._F is None:
            self._F = Facts(self.sub.facts_files())
            if self._F.stats["cfg_failures"]:
                raise AnalysisBroken("%d CFGs could not be built" % self._F.stats["cfg_failures"])
        return self._F

    def entry_fns(self, which):
        fns = []
        for name in self.entries[which]:
            fns += self.F.need(name)
        return fns

    def reach(self, which):
        """Keys of functions reachable from the 'encode' / 'decode' entry set."""
        if which not in self._reach:
            self._reach[which] = self.F.reach(self.entry_fns(which))
        return self._reach[which]

    def controls(self, prefix):
        """Control functions verif_control::<prefix>*"""
        return [f for f in self.F.fns.values()
                if f.name.startswith("verif_control::" + prefix)]

    def stats(self):
        s = dict(self.F.stats)
        s["tree_hash"] = self.sub.hash
        return {"units": s["units"], "functions": s["functions"],
                "instantiations": s["instantiations"],
                "functions_deduplicated": s["dedup_dropped"],
                "tree_hash": s["tree_hash"]}


def main():
    ap = argparse.ArgumentParser()
    ap.add_argument("pid")
    ap.add_argument("--tier", default=os.environ.get("VERIF_TIER", "quick"),
                    choices=["quick", "thorough"])
    a = ap.parse_args()
    try:
        mod = importlib.import_module("verif.props." + a.pid)
    except ImportError as e:
        print("no check for %s: %s" % (a.pid, e))
        return EXIT_BROKEN
    rep = Report(a.pid, a.tier, getattr(mod, "LEVEL", "other"))
    try:
        ctx = Ctx(a.tier)
        mod.run(ctx, rep)
        rep.stats.update(ctx.stats())
        return rep.finalize()
    except AnalysisBroken as e:
        print("ANALYSIS-BROKEN: %s" % e)
        return EXIT_BROKEN
    except Exception:
        traceback.print_exc()
        print("ANALYSIS-BROKEN: internal error in the checker")
        return EXIT_BROKEN


if __name__ == "__main__":
    sys.exit(main())
