"""UNINIT: an uninitialised scalar heap array on a codec path is completely
written before anything reads it.

`new T[n]` (no value-initialisation, T scalar) yields indeterminate content.
For every such allocation held by a local in Reach(encode + decode) every use
that can read the content - the pointer handed to a callee that does not fill
it, an element on the right-hand side - must be preceded on every path by a
*full fill*: a callee from the fill table (GetValue, ConvertValue, memcpy ...)
or a draco callee whose body fills its parameter in a loop without leaving
early, or an element store inside a loop bounded by the allocation's own size.
Otherwise heap garbage can reach the output: same input, different bytes.
"""
from .facts import walk, strip_targs
from .cfgutil import success_returns
from .minconsume import SIZES
from .taint import _tree_eq

FILL_CALLEES = ("draco::GeometryAttribute::GetValue", "draco::GeometryAttribute::ConvertValue",
                "draco::PointAttribute::GetMappedValue", "draco::GeometryAttribute::GetMappedValue",
                "draco::DecoderBuffer::Decode", "draco::DataBuffer::Read",
                "memcpy", "std::memcpy", "memset", "std::memset", "std::fill", "std::fill_n", "std::copy",
                "std::copy_n", "std::iota")


def _strip(t):
    while isinstance(t, dict) and t.get("k") in ("icast", "cast", "copy", "paren"):
        t = t.get("e")
    return t


def allocations(fn):
    """[(holder decl id, name, size tree, elem type, block, loc)]"""
    out = []
    for b, ev in fn.events():
        if ev["k"] != "decl" or "d" not in (ev.get("var") or {}) or not isinstance(ev.get("e"), dict):
            continue
        for n in walk(ev["e"]):
            if n.get("k") == "new" and "array" in n and "init" not in n and n.get("t") in SIZES:
                out.append((ev["var"]["d"], ev["var"].get("n"), _strip(n["array"]), n["t"], b.id, ev.get("loc", "")))
    return out


def _param_filled(F, callee, pidx, depth=0):
    """Does callee write its pointer parameter completely (a store through it in a loop that no success
    return leaves early, or the parameter handed on to a fill callee)?"""
    if depth > 1 or pidx >= len(callee.params) or "d" not in callee.params[pidx]:
        return False
    pd = callee.params[pidx]["d"]

    def is_param(t):
        t = _strip(t)
        return isinstance(t, dict) and t.get("k") == "var" and t.get("d") == pd
    for n, b, rk, ev in callee.calls():
        base = strip_targs(n.get("fn") or "")
        if base in FILL_CALLEES and any(is_param(a) for a in n.get("args", [])[:1]):
            return True
    succ = {b.id for b, ev, c in success_returns(callee)}
    for h, body, latches in callee.loops():
        store = False
        for blk, rk, tree, ev in callee.roots():
            if tree is None or blk.id not in body:
                continue
            for n in walk(tree):
                if n.get("k") == "bin" and n.get("op") == "=":
                    l = _strip(n.get("l"))
                    if isinstance(l, dict) and l.get("k") == "sub" and is_param(l.get("base")):
                        store = True
        if not store:
            continue
        # an exit from inside the loop body (return / break, not the header's own exit) that can still end in
        # a success return leaves the tail of the array unwritten
        early = False
        for x in body - {h}:
            for s_ in callee.succs(x):
                if s_ not in body and (callee.reachable(start=s_) & succ or s_ in succ):
                    early = True
        if not early:
            return True
    return False


def check_fn(F, fn):
    """yields (name, site, ok, detail) per allocation"""
    allocs = allocations(fn)
    if not allocs:
        return
    doms = fn.doms()
    loops = fn.loops()
    calls = list(fn.calls())
    for d, name, size, et, ablock, loc in allocs:
        fills = []          # (block, order) after which the content is defined
        fill_loops = []     # headers of loops that fill the array
        reads = []          # (block, order, what)

        def is_holder(t):
            t = _strip(t)
            return isinstance(t, dict) and t.get("k") == "var" and t.get("d") == d
        # element accesses
        lhs_ids = set()
        for blk, rk, tree, ev in fn.roots():
            if tree is None:
                continue
            for n in walk(tree):
                if n.get("k") == "bin" and n.get("op") in ("=",):
                    l = _strip(n.get("l"))
                    if isinstance(l, dict) and l.get("k") == "call" and l.get("opcall") and is_holder(l.get("obj")) and \
                            strip_targs(l.get("fn") or "").endswith("operator[]"):
                        lhs_ids.add(l.get("i"))
                        b = l.get("b", blk.id)
                        for h, body, latches in loops:
                            if b in body and fn.blocks[h].cond is not None:
                                # loop bounded by the allocation's own size?
                                for x in walk(fn.blocks[h].cond):
                                    if _tree_eq(_strip(x), size):
                                        fill_loops.append((h, body))
        for n, b, rk, ev in calls:
            if n.get("k") != "call":
                continue
            base = strip_targs(n.get("fn") or "")
            if n.get("opcall") and base.endswith("operator[]") and is_holder(n.get("obj")):
                if n.get("i") not in lhs_ids:
                    reads.append((b, n.get("i", 0), "element read"))
                continue
            # pointer handed to a callee: holder.get() / holder itself among the arguments
            for ai, a in enumerate(n.get("args", [])):
                hit = any(x.get("k") == "call" and strip_targs(x.get("fn") or "").endswith("::get") and
                          is_holder(x.get("obj")) for x in walk(a)) or is_holder(a)
                if not hit:
                    continue
                if base in FILL_CALLEES:
                    fills.append((b, n.get("i", 0)))
                else:
                    tg = [t for t in F.targets(n) if "/draco/" in t.file or t.name.startswith("verif_control::")]
                    if tg and all(_param_filled(F, t, ai) for t in tg):
                        fills.append((b, n.get("i", 0)))
                    else:
                        reads.append((b, n.get("i", 0), "handed to %s" % base.replace("draco::", "")))
        bad = None
        for rb, ri, what in reads:
            ok = False
            for fb, fi in fills:
                if (fb == rb and fi < ri) or (fb != rb and fb in doms.get(rb, ())):
                    ok = True
            for h, body in fill_loops:
                if h in doms.get(rb, ()) :
                    ok = True
            if not ok:
                bad = what
                break
        yield (name, fn.site(loc), bad is None,
               "every reading use is preceded by a full fill (%d fill sites, %d fill loops, %d reading uses)" % (
                   len(fills), len(fill_loops), len(reads)) if bad is None else
               "uninitialised `new %s[..]` held by `%s` is %s before it is completely written on every path" % (et, name, bad))
