"""PREDSIG: the encoder and the decoder of one prediction scheme compute the
predicted value with the same arithmetic.

A prediction scheme round-trips only if both sides feed *the same* predicted
value into the transform: the encoder into `transform().ComputeCorrection(orig,
pred, corr)`, the decoder into `transform().ComputeOriginalValue(pred, corr,
out)`.  The value itself is data dependent, but the *operations that produce
it* are in the code: for the `pred` argument of every such sink the rule takes
the backward slice inside the function (assignments, compound assignments,
`assign`/copy, out-parameters of callees; subscript and pointer-offset
expressions are indices, not values, and are not followed; private helpers of
the same class and file-local helpers are inlined, shared helpers such as
ComputeParallelogramPrediction or the predictor classes stay as one token) and
abstracts it to a set of (operation, width in bits[, constant operand]).

  * the arithmetic sets of the sibling encoder / decoder are equal (`AddAsUnsigned`
    is an addition at the width of its type);
  * every shared helper the decoder's slice calls is called by the encoder's.

Summing in 64 bits on one side and in 32 on the other, dividing on one side and
shifting on the other, or predicting through a different helper changes the
set.  Restructuring that keeps the arithmetic (loops, locals, helpers) does not.
"""
from .facts import walk, strip_targs

OPN = {"+": "add", "-": "sub", "*": "mul", "/": "div", "%": "mod", "<<": "shl", ">>": "shr", "&": "and",
       "|": "or", "^": "xor"}
ACCESS = ("operator[]", "data", "get", "begin", "end", "operator*", "at", "operator->", "front", "back",
          "cbegin", "cend")
COPY_LIKE = ("assign", "operator=", "push_back", "insert", "emplace_back")
SINKS = ("ComputeCorrection", "ComputeOriginalValue")
MAX_DEPTH = 2
LEDGER_DEPTH = 4


def strip(t):
    while isinstance(t, dict) and t.get("k") in ("icast", "cast", "copy", "paren", "mat", "bind") and "v" not in t:
        t = t.get("e")
    return t


def short_of(n):
    return strip_targs(n.get("fn") or "").rsplit("::", 1)[-1]


def is_ptr(t):
    t = strip(t)
    if not isinstance(t, dict):
        return False
    ty = t.get("t") or t.get("ret") or ""
    if "*" in ty or ty.endswith("]"):
        return True
    if t.get("k") == "bin" and t.get("op") in ("+", "-"):
        return is_ptr(t.get("l"))
    return False


def root_key(t):
    t = strip(t)
    if not isinstance(t, dict):
        return None
    k = t.get("k")
    if k == "var" and "d" in t:
        return ("v", t["d"])
    if k == "field":
        b = strip(t.get("base"))
        if isinstance(b, dict) and b.get("k") == "var" and "d" in b:
            return ("vf", b["d"], t.get("n"))
        return ("f", t.get("n"))
    if k == "call":
        s = short_of(t)
        if s in ACCESS:
            if t.get("obj") is not None:
                return root_key(t["obj"])
            if t.get("args"):
                return root_key(t["args"][0])
        return None
    if k == "sub":
        return root_key(t.get("base"))
    if k == "un" and t.get("op") in ("&", "*"):
        return root_key(t.get("e"))
    if k == "bin" and t.get("op") in ("+", "-") and is_ptr(t.get("l")):
        return root_key(t.get("l"))
    return None


def width(t):
    t0, t = t, strip(t)
    if not isinstance(t, dict):
        return 32
    if isinstance(t0, dict) and t0.get("k") in ("icast", "cast") and t0.get("iw"):
        return t0["iw"]
    if t.get("iw"):
        return t["iw"]
    if t.get("k") == "bin":
        return max(32, width(t.get("l")), width(t.get("r")))
    if t.get("k") in ("un", "cond"):
        return max(32, width(t.get("e") or t.get("t")))
    return 32


def const_of(t):
    t = strip(t)
    if isinstance(t, dict) and t.get("k") in ("lit", "icast", "cast") and isinstance(t.get("v"), int):
        return t["v"]
    return None


def value_nodes(t, arg_filter=None):
    """nodes that carry the *value*: subscript indices, pointer offsets and the object a field lives in are
    positions, not values; arg_filter(call) -> indices of the arguments that carry values into the result"""
    st = [t]
    while st:
        n = st.pop()
        if not isinstance(n, dict):
            continue
        yield n
        k = n.get("k")
        if k == "call":
            if short_of(n) in ACCESS:
                if n.get("obj") is not None:
                    st.append(n["obj"])
                elif n.get("args"):
                    st.append(n["args"][0])
                continue
            if n.get("obj") is not None:
                st.append(n["obj"])
            args = n.get("args") or []
            keep = arg_filter(n) if arg_filter is not None else None
            st.extend(a for i, a in enumerate(args) if keep is None or i in keep)
            continue
        if k == "field":
            continue
        if k == "sub":
            st.append(n.get("base"))
            continue
        if k == "bin" and n.get("op") in ("+", "-") and is_ptr(n.get("l")):
            st.append(n["l"])
            continue
        for kk in ("e", "l", "r", "c", "t", "f"):
            v = n.get(kk)
            if isinstance(v, dict):
                st.append(v)
        for a in n.get("args") or []:
            st.append(a)


class PredSig:
    def __init__(self, F, inline_dir=None):
        self.F = F
        self._memo = {}
        self.inline_dir = inline_dir       # also inline every callee defined under this directory (ledger mode)

    def private_helper(self, fn, callee):
        """inline: members of the same class (any instantiation), file-local functions and lambdas"""
        if self.inline_dir and self.inline_dir in callee.file:
            return True
        if callee.is_lambda or "(anonymous namespace)" in callee.name:
            return True
        if fn.cls and callee.cls and strip_targs(fn.cls) == strip_targs(callee.cls):
            return True
        return False

    def arg_filter(self, fn, depth):
        def flt(n):
            fnm = n.get("fn") or ""
            args = n.get("args") or []
            if not fnm.startswith(("draco::", "verif_control::")) or n.get("opcall") or \
                    short_of(n) in ("AddAsUnsigned", "ConvertSymbolToSignedInt", "ConvertSignedIntToSymbol"):
                return None                  # std:: functions, operators, value helpers: every argument is a value
            tg = [t for t in self.F.targets(n) if not n.get("virt")]
            if len(tg) == 1 and self.private_helper(fn, tg[0]) and depth < self.max_depth():
                return self.return_sig(tg[0], depth + 1)[2]
            return {i for i, a in enumerate(args) if is_ptr(a)}   # shared helper: data pointers, not ids / counts
        return flt

    def keep_call(self, n):
        """ledger mode: only helpers of the attribute coding layer are part of the value's meaning; corner-table
        navigation (SwingLeft/Right, Next, Vertex ...) selects *positions* and comes and goes with loop shapes"""
        if not self.inline_dir:
            return True
        tg = self.F.targets(n)
        return any("/compression/attributes/" in t.file for t in tg) if tg else False

    def max_depth(self):
        return LEDGER_DEPTH if self.inline_dir else MAX_DEPTH

    def _op(self, n):
        l, r = n.get("l"), n.get("r")
        w = max(32, width(l), width(r))
        c = const_of(r)
        if c is None:
            c = const_of(l) if n.get("op") in ("+", "*", "&", "|", "^") else None
        nm = OPN[n["op"].rstrip("=") if n["op"] not in OPN else n["op"]]
        return (nm, w) if c is None or c in (0, 1) else (nm, w, c)

    def ops_of(self, fn, tree, depth):
        arith, calls = set(), set()
        for n in value_nodes(tree, self.arg_filter(fn, depth)):
            k = n.get("k")
            if k == "bin" and n.get("op") in OPN and not is_ptr(n.get("l")):
                arith.add(self._op(n))
            elif k == "un" and n.get("op") == "-":
                arith.add(("neg", max(32, width(n.get("e")))))
            elif k in ("cast", "icast") and n.get("iw") and "v" not in n and n["iw"] >= 8:
                e_ = n.get("e")
                while isinstance(e_, dict) and e_.get("k") in ("copy", "paren"):
                    e_ = e_.get("e")
                we = width(e_) if isinstance(e_, dict) and (e_.get("iw") or e_.get("k") in ("bin", "un")) else None
                if we and we > n["iw"] and n["iw"] >= 32:
                    arith.add(("narrow", we, n["iw"]))     # a wrapping conversion is part of the value
            elif k == "call":
                s = short_of(n)
                if s in ACCESS or s in ("size", "empty"):
                    continue
                fnm = n.get("fn") or ""
                if strip_targs(fnm) in ("std::min", "std::max", "std::abs", "std::clamp", "abs", "std::llabs", "llabs"):
                    arith.add((strip_targs(fnm).replace("std::", ""), max(32, width(n))))
                    continue
                if not fnm.startswith(("draco::", "verif_control::")):
                    continue
                if s == "AddAsUnsigned":
                    arith.add(("add", max(32, width(n))))
                    continue
                tg = [t for t in self.F.targets(n) if not n.get("virt")]
                if len(tg) == 1 and self.private_helper(fn, tg[0]) and depth < self.max_depth():
                    a2, c2, _ = self.return_sig(tg[0], depth + 1)
                    arith |= a2
                    calls |= c2
                elif self.keep_call(n):
                    calls.add(strip_targs(fnm).replace("draco::", ""))
        return arith, calls

    def return_sig(self, fn, depth):
        key = ("ret", fn.key)
        if key in self._memo:
            return self._memo[key]
        self._memo[key] = (set(), set(), set())
        starts = [ev.get("e") for b, ev in fn.returns() if isinstance(ev.get("e"), dict)]
        self._memo[key] = self.slice(fn, starts, (), depth)
        return self._memo[key]

    def param_sig(self, fn, pidx, depth):
        key = ("par", fn.key, pidx)
        if key in self._memo:
            return self._memo[key]
        self._memo[key] = (set(), set(), set())
        if pidx < len(fn.params) and "d" in fn.params[pidx]:
            self._memo[key] = self.slice(fn, [], [("v", fn.params[pidx]["d"])], depth)
        return self._memo[key]

    def slice(self, fn, start_trees, start_keys, depth=0):
        targets = set(start_keys)
        arith, calls = set(), set()

        flt = self.arg_filter(fn, depth)

        def add_tree(t):
            ch = False
            for n in value_nodes(t, flt):
                k = root_key(n)
                if k is not None and k not in targets:
                    targets.add(k)
                    ch = True
            return ch
        for t in start_trees:
            a, c = self.ops_of(fn, t, depth)
            arith |= a
            calls |= c
            add_tree(t)
        roots = [(b, kind, tree, e) for b, kind, tree, e in fn.roots() if tree is not None]
        done_stmt = set()
        changed = True
        while changed:
            changed = False
            for b, kind, tree, e in roots:
                if kind == "decl" and "d" in (e.get("var") or {}) and ("v", e["var"]["d"]) in targets and \
                        isinstance(tree, dict) and not (tree.get("k") == "ctor" and "std::" in (tree.get("cls") or "")):
                    sid = ("decl", e["var"]["d"])
                    if sid not in done_stmt:
                        done_stmt.add(sid)
                        a, c = self.ops_of(fn, tree, depth)
                        arith |= a
                        calls |= c
                        changed |= add_tree(tree) or True
                for n in walk(tree):
                    k = n.get("k")
                    if k == "bin" and n.get("op", "").endswith("=") and n["op"] not in ("==", "!=", "<=", ">="):
                        lk = root_key(n.get("l"))
                        if lk is None or lk not in targets:
                            continue
                        sid = ("asg", n.get("i"), n.get("loc"), id(n))
                        if sid in done_stmt:
                            continue
                        done_stmt.add(sid)
                        if n["op"] != "=":
                            arith.add(self._op(n))
                        a, c = self.ops_of(fn, n.get("r"), depth)
                        arith |= a
                        calls |= c
                        add_tree(n.get("r"))
                        changed = True
                    elif k == "un" and n.get("op") in ("++", "--", "p++", "p--", "++p", "--p"):
                        lk = root_key(n.get("e"))
                        if lk in targets and ("inc", id(n)) not in done_stmt:
                            done_stmt.add(("inc", id(n)))
                            arith.add(("add" if "+" in n["op"] else "sub", max(32, width(n.get("e")))))
                    elif k == "call":
                        s = short_of(n)
                        sid = ("call", n.get("i"), id(n))
                        if sid in done_stmt:
                            continue
                        ok = root_key(n.get("obj")) if n.get("obj") is not None else None
                        if ok is not None and ok in targets and s in COPY_LIKE:
                            done_stmt.add(sid)
                            for a_ in n.get("args") or []:
                                a, c = self.ops_of(fn, a_, depth)
                                arith |= a
                                calls |= c
                                add_tree(a_)
                            changed = True
                            continue
                        fnm = n.get("fn") or ""
                        if not fnm.startswith(("draco::", "verif_control::")) and not fnm.startswith("std::copy"):
                            continue
                        if s in ACCESS:
                            continue
                        args = n.get("args") or []
                        hit = [i for i, a_ in enumerate(args) if root_key(a_) in targets and
                               (is_ptr(a_) or (isinstance(strip(a_), dict) and strip(a_).get("k") == "un"))]
                        objhit = ok is not None and ok in targets and not fnm.startswith("std::")
                        if not hit and not objhit:
                            continue
                        done_stmt.add(sid)
                        changed = True
                        if s in SINKS:
                            continue
                        tg = [t for t in self.F.targets(n) if not n.get("virt")]
                        if hit and len(tg) == 1 and self.private_helper(fn, tg[0]) and depth < self.max_depth():
                            for i in hit:
                                a2, c2, _ = self.param_sig(tg[0], i, depth + 1)
                                arith |= a2
                                calls |= c2
                        elif self.keep_call(n):
                            calls.add(strip_targs(fnm).replace("draco::", ""))
                        # the callee computes the target from the data its other arguments point to
                        # (scalar arguments - ids, counts, corners - are positions, not values)
                        for i, a_ in enumerate(args):
                            if i not in hit and is_ptr(a_):
                                add_tree(a_)
        reached = {i for i, p_ in enumerate(fn.params) if "d" in p_ and ("v", p_["d"]) in targets}
        return arith, calls, reached


def sink_slices(ps, fn):
    """(arith, calls, number of sinks) of the predicted-value arguments of the transform sinks in fn"""
    starts = []
    for n, b, rk, ev in fn.calls():
        s = short_of(n)
        if s == "ComputeCorrection":
            idx = 1
        elif s == "ComputeOriginalValue":
            idx = 0
        else:
            continue
        args = n.get("args") or []
        if idx < len(args):
            starts.append(args[idx])
    if not starts:
        return set(), set(), 0
    a, c, _ = ps.slice(fn, starts, ())
    return a, c, len(starts)


def failure_handling(fn):
    """{callee (side-neutral name): 'fails' | 'continues'} for bool draco callees whose result is branched on:
    what happens on the edge where the callee returned false"""
    from .cfgutil import _strip_not, success_returns
    succ_blocks = {b.id for b, ev, c in success_returns(fn)}
    out = {}
    for b in fn.blocks.values():
        if b.cond is None or len(b.succ) != 2 or b.labels is not None:
            continue
        tree, pos = _strip_not(b.cond, True)
        t = strip(tree)
        if not isinstance(t, dict) or t.get("k") != "call" or t.get("ret") != "bool":
            continue
        fnm = t.get("fn") or ""
        if not fnm.startswith(("draco::", "verif_control::")):
            continue
        false_succ = b.succ[1] if pos else b.succ[0]
        if false_succ is None:
            continue
        reach = fn.reachable(start=false_succ) | {false_succ}
        h = "continues" if reach & succ_blocks else "fails"
        name = strip_targs(fnm).replace("draco::", "")
        for a, b_ in (("Encoder", "#"), ("Decoder", "#"), ("Encoding", "#"), ("Decoding", "#")):
            name = name.replace(a, b_)
        if out.get(name, h) != h:
            h = "mixed"
        out[name] = h
    return out


def run_predsig(ctx, rep, rule="PREDSIG"):
    from .core import Obligation, DISCHARGED, VIOLATION
    from .dispatch import enc_to_dec
    F = ctx.F
    ps = PredSig(F)
    enc, dec = {}, {}
    for f in F.fns.values():
        s = f.base.rsplit("::", 1)[-1]
        if "PredictionScheme" not in f.base:
            continue
        if s == "ComputeCorrectionValues":
            enc.setdefault(f.base, []).append(f)
        elif s == "ComputeOriginalValues":
            dec.setdefault(f.base, []).append(f)
    n = 0
    fired = False
    good = True
    sf_fired = None
    for eb, efs in sorted(enc.items()):
        db = enc_to_dec(eb.rsplit("::", 1)[0]) + "::ComputeOriginalValues"
        dfs = dec.get(db)
        if not dfs:
            continue
        is_ctl = eb.startswith("verif_control::")
        ea, ec, en = set(), set(), 0
        for f in efs:
            a, c, k = sink_slices(ps, f)
            ea |= a
            ec |= c
            en += k
        da, dc, dn = set(), set(), 0
        for f in dfs:
            a, c, k = sink_slices(ps, f)
            da |= a
            dc |= c
            dn += k
        if not en or not dn:
            continue
        strip_side = lambda s_: {x.replace("Encoder", "#").replace("Decoder", "#").replace("Encoding", "#")
                                 .replace("Decoding", "#") for x in s_}
        miss_calls = strip_side(dc) - strip_side(ec)
        ok = ea == da and not miss_calls
        n += 0 if is_ctl else 1
        if is_ctl and "good" in eb:
            good = good and ok
        elif is_ctl:
            fired |= not ok
        # the same shared fallible helper must be handled the same way on both sides: a failure the encoder
        # papers over (nothing in the stream says so) still fails in the decoder
        he, hd = {}, {}
        for f in efs:
            he.update(failure_handling(f))
        for f in dfs:
            hd.update(failure_handling(f))
        diff = sorted(k for k in set(he) & set(hd) if he[k] != hd[k])
        rep.add(Obligation("SIBLING-FAIL", eb.rsplit("::", 1)[0].replace("draco::", ""),
                           "<-> " + db.rsplit("::", 1)[0].replace("draco::", ""), efs[0].loc,
                           DISCHARGED if not diff or is_ctl else VIOLATION, control=is_ctl, trivial=not (set(he) & set(hd)),
                           detail="shared fallible helpers %s are handled alike on failure" % sorted(set(he) & set(hd))
                           if not diff else "; ".join(
                               "when %s fails the encoder %s but the decoder %s" % (k.split("::")[-1], he[k], hd[k])
                               for k in diff)))
        if is_ctl and "Fail" in eb:
            sf_fired = bool(diff)
        only_e, only_d = sorted(ea - da, key=str), sorted(da - ea, key=str)
        rep.add(Obligation(rule, eb.rsplit("::", 1)[0].replace("draco::", ""),
                           "<-> " + db.rsplit("::", 1)[0].replace("draco::", ""), efs[0].loc,
                           DISCHARGED if ok or (is_ctl and "good" in eb) else VIOLATION, control=is_ctl,
                           detail=("both sides compute the predicted value with %s; shared helpers %s" % (
                               sorted(ea, key=str), sorted(x.split("::")[-1] for x in dc))) if ok else
                           "the predicted value handed to the transform is computed differently: only the encoder's "
                           "slice has %s, only the decoder's has %s%s" % (
                               only_e, only_d, ("; decoder-only helpers %s" % sorted(miss_calls)) if miss_calls else "")))
    if sf_fired is not None:
        rep.control("SIBLING-FAIL", "ps_Fail pair", sf_fired, "a helper failure the encoder survives and the decoder does not must be reported")
    rep.control(rule, "ps_Bad pair", fired, "a 64-bit sum on one side only must be reported")
    rep.control(rule, "ps_Good pair (negative)", good, "restructured but equal arithmetic must agree")
    return n


def _fpt(t):
    if not isinstance(t, str):
        return None
    t = t.replace("const ", "").replace("&", "").strip()
    return t if t in ("float", "double", "long double") else None


def run_sibling_fp(ctx, rep, dirs=None, rule="SIBLING-FP"):
    """SIBLING-FP: an encoder class and its decoder sibling that both compute in floating point use the same
    floating-point types.  Where no value is transmitted (the adaptive bit coder derives each probability from
    the bits seen so far on both sides) the two computations must be bit-identical; `float` on one side and
    `double` on the other rounds differently after a few updates."""
    from .core import Obligation, DISCHARGED, VIOLATION
    from .dispatch import enc_to_dec
    F = ctx.F
    by, loc = {}, {}
    for f in F.fns.values():
        is_ctl = f.name.startswith("verif_control::fp_")
        if not f.cls or not ("/draco/" in f.file or is_ctl):
            continue
        if dirs and not is_ctl and not any(d in f.file for d in dirs):
            continue
        cls = strip_targs(f.cls)
        s = by.setdefault(cls, set())
        loc.setdefault(cls, f.loc)
        c = F.classes.get(f.cls) or F.classes.get(cls) or {}
        for fld in c.get("fields", []) if isinstance(c.get("fields"), list) else []:
            t = _fpt(fld.get("t") if isinstance(fld, dict) else None)
            if t:
                s.add(t)
        for b, rk, tree, ev in f.roots():
            if rk == "decl":
                t = _fpt((ev.get("var") or {}).get("t"))
                if t:
                    s.add(t)
            if tree is None:
                continue
            for n in walk(tree):
                if n.get("k") in ("var", "field", "icast", "cast"):
                    for key in ("t", "to"):
                        t = _fpt(n.get(key))
                        if t:
                            s.add(t)
    n = 0
    fired = False
    for cls in sorted(by):
        if "Encod" not in cls:
            continue
        d = enc_to_dec(cls)
        if d == cls or d not in by or not by[cls] or not by[d]:
            continue
        is_ctl = cls.startswith("verif_control::")
        ok = by[cls] == by[d]
        n += 0 if is_ctl else 1
        fired |= is_ctl and not ok
        rep.add(Obligation(rule, cls.replace("draco::", ""), "<-> " + d.replace("draco::", ""), loc[cls],
                           DISCHARGED if ok else VIOLATION, control=is_ctl,
                           detail="both sides compute in %s" % sorted(by[cls]) if ok else
                           "the encoder computes in %s, the decoder in %s: state that both sides must derive "
                           "identically is rounded differently" % (sorted(by[cls]), sorted(by[d]))))
    rep.control(rule, "fp_ pair", fired, "float on one side and double on the other must be reported")
    return n


def decoder_signatures(F):
    """{scheme decoder function: sorted list of signature items} with every helper of the prediction-scheme
    directory inlined (the shared predictors are part of what a stream means)"""
    ps = PredSig(F, inline_dir="/prediction_schemes/")
    out = {}
    for f in F.fns.values():
        if "PredictionScheme" not in f.base or f.base.rsplit("::", 1)[-1] != "ComputeOriginalValues":
            continue
        if f.name.startswith("verif_control::"):
            continue
        a, c, k = sink_slices(ps, f)
        if not k:
            continue
        key = f.base.replace("draco::", "")
        cur = out.setdefault(key, set())
        cur |= {"%s/%s" % (x[0], "/".join(str(y) for y in x[1:])) for x in a}
        cur |= {"call " + x.split("::")[-1] for x in c}
    return {k: sorted(v) for k, v in out.items()}


def run_predsig_ledger(ctx, rep, rule="LEDGER-PREDSIG"):
    from .core import Obligation, DISCHARGED, VIOLATION, load_table
    from .substrate import AnalysisBroken
    now = decoder_signatures(ctx.F)
    frozen = load_table("predsig_ledger.json")["decoders"]
    n = 0
    for k, fz in sorted(frozen.items()):
        if k not in now:
            raise AnalysisBroken("LEDGER-PREDSIG: decoder %s not found" % k)
        same = sorted(fz) == now[k]
        n += 1
        rep.add(Obligation(rule, k, "arithmetic of the predicted value", "-", DISCHARGED if same else VIOLATION,
                           detail="equals the frozen signature (%d items)" % len(fz) if same else
                           "the operations that produce the decoder's predicted value changed (both coder sides share "
                           "them, so round trips still work, but streams written before decode to other values): now also "
                           "%s, no longer %s" % (sorted(set(now[k]) - set(fz)), sorted(set(fz) - set(now[k])))))
    return n
