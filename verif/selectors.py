"""SELECTORS: format decisions that writer and reader both *derive* from a
header quantity (they are not stored in the stream) must agree: the index
width of the sequential mesh coder is chosen from num_points on both sides.
For a (writer, reader) pair, every stream write/read token is keyed by the
comparisons of the quantity with literal constants that hold where it
executes (current-version path on the reader side); the writer's map must be
matched by the reader's, and (C05) both equal the frozen ledger."""
from .facts import walk, strip_targs
from .cfgutil import dominating_edges, _strip_not
from .primbound import _const
from .taint import REL_OPS, NEG, FLIP
from .minconsume import SIZES


def _mentions(t, quantity):
    for n in walk(t):
        if n.get("k") in ("var", "field") and n.get("n") == quantity:
            return True
        if n.get("k") == "call" and strip_targs(n.get("fn") or "").rsplit("::", 1)[-1] == quantity:
            return True
    return False


VERSION_LOCALS = {"ids": frozenset()}     # decl ids of locals that cache the bitstream version (per function)


def version_locals(fn):
    """locals initialised from a bitstream-version getter / field (`const uint16_t version = bitstream_version();`)"""
    out = set()
    for b, ev in fn.events():
        if ev["k"] == "decl" and "d" in (ev.get("var") or {}) and isinstance(ev.get("e"), dict):
            e = ev["e"]
            while isinstance(e, dict) and e.get("k") in ("icast", "cast", "copy"):
                e = e.get("e")
            if isinstance(e, dict) and e.get("k") in ("call", "field") and _is_version(e):
                out.add(ev["var"]["d"])
    return frozenset(out)


def _is_version(t):
    return any((n.get("k") == "call" and strip_targs(n.get("fn") or "").rsplit("::", 1)[-1]
                in ("bitstream_version", "BitstreamVersion")) or
               (n.get("k") == "field" and n.get("n") in ("bitstream_version_", "version_")) or
               (n.get("k") == "var" and n.get("d") is not None and n.get("d") in VERSION_LOCALS["ids"])
               for n in walk(t))


def _leaf_atoms(tree):
    """flatten a && / || tree into (op_kind, [leaves])"""
    if isinstance(tree, dict) and tree.get("k") == "bin" and tree.get("op") in ("&&", "||"):
        return tree["op"], [tree.get("l"), tree.get("r")]
    return None, [tree]


def known_atoms(cond, outcome, quantity, cur_version):
    """Atoms on `quantity` (var, op, const) known to hold when cond == outcome,
    resolving bitstream-version tests with the current version."""
    tree, oc = _strip_not(cond, outcome)

    def one(t, truth):
        t2, tr = _strip_not(t, truth)
        if not isinstance(t2, dict) or t2.get("k") != "bin" or t2.get("op") not in REL_OPS:
            return None
        op = t2["op"] if tr else NEG[t2["op"]]
        l, r = t2.get("l"), t2.get("r")
        for side, other, o in ((l, r, op), (r, l, FLIP[op])):
            c = _const(other) if isinstance(other, dict) else None
            if c is not None and isinstance(side, dict) and _mentions(side, quantity):
                return (o, c)
        return None

    def truth_of_version(t):
        t2, pos = _strip_not(t, True)
        if isinstance(t2, dict) and t2.get("k") == "bin" and t2.get("op") in REL_OPS:
            l, r = t2.get("l"), t2.get("r")
            for side, other, o in ((l, r, t2["op"]), (r, l, FLIP[t2["op"]])):
                c = _const(other) if isinstance(other, dict) else None
                if c is not None and isinstance(side, dict) and _is_version(side):
                    v = {"<": cur_version < c, "<=": cur_version <= c, ">": cur_version > c,
                         ">=": cur_version >= c, "==": cur_version == c, "!=": cur_version != c}[o]
                    return v if pos else not v
        return None

    kind, leaves = _leaf_atoms(tree)
    if kind is None:
        a = one(tree, oc)
        return [a] if a else []
    if (kind == "&&" and oc) or (kind == "||" and not oc):
        out = []
        for lf in leaves:
            out += known_atoms(lf, oc, quantity, cur_version)
        return out
    # `a && b` false (or `a || b` true): if all other conjuncts are known
    # (version tests on the current version), the remaining one is decided
    unknown = []
    for lf in leaves:
        tv = truth_of_version(lf)
        if tv is None:
            unknown.append(lf)
        elif kind == "&&" and tv is False:
            return []        # the conjunction is false because of the version alone
        elif kind == "||" and tv is True:
            return []
    if len(unknown) == 1:
        return known_atoms(unknown[0], oc, quantity, cur_version)
    return []


def token_of(n):
    base = strip_targs(n.get("fn") or "")
    pt = n.get("pt") or []
    if base in ("draco::EncoderBuffer::Encode", "draco::DecoderBuffer::Decode") and len(pt) == 1:
        t = pt[0].replace("*", "").replace("&", "").replace("const", "").strip()
        if t.startswith("std::array<"):
            t = t[len("std::array<"):]          # element type of a whole-array write
        if t.startswith("draco::IndexType<"):
            t = t[len("draco::IndexType<"):].split(",")[0].strip()
        return "FIX%d" % SIZES.get(t, 0)
    if base in ("draco::EncodeVarint", "draco::DecodeVarint"):
        return "VARINT"
    return None


def _tokens_deep(F, fn, depth, seen):
    """stream tokens of a functor body, following draco helpers it calls (two levels)"""
    out = []
    if fn.key in seen or depth > 2:
        return out
    seen.add(fn.key)
    for n, b, rk, ev in fn.calls():
        tok = token_of(n)
        if tok is not None:
            out.append(tok)
        elif n.get("k") == "call" and (n.get("fn") or "").startswith("draco::") and \
                not strip_targs(n.get("fn") or "").startswith(("draco::DecoderBuffer::", "draco::EncoderBuffer::")):
            for t in F.targets(n):
                out += _tokens_deep(F, t, depth + 1, seen)
    return out


def _version_truth(cond, cur_version):
    """Truth value of a pure bitstream-version test on the current version."""
    t2, pos = _strip_not(cond, True)
    if isinstance(t2, dict) and t2.get("k") == "bin" and t2.get("op") in REL_OPS:
        for side, other, o in ((t2.get("l"), t2.get("r"), t2["op"]),
                               (t2.get("r"), t2.get("l"), FLIP[t2["op"]])):
            c = _const(other) if isinstance(other, dict) else None
            if c is not None and isinstance(side, dict) and _is_version(side):
                tv = {"<": cur_version < c, "<=": cur_version <= c, ">": cur_version > c,
                      ">=": cur_version >= c, "==": cur_version == c, "!=": cur_version != c}[o]
                return tv if pos else not tv
    return None


def selector_map(F, fn_base, quantity, cur_version, version_side):
    """{frozenset(atoms on the quantity): set(tokens)} for stream tokens inside
    loops; on the reader side legacy edges of pure version gates are removed
    from the CFG first (current-version path)."""
    out = {}
    for fn in F.find(fn_base):
        dead = set()
        VERSION_LOCALS["ids"] = version_locals(fn)
        if version_side:
            for b in fn.blocks.values():
                if b.cond is None or len(b.succ) != 2 or _mentions(b.cond, quantity):
                    continue
                tv = _version_truth(b.cond, cur_version)
                if tv is None:
                    continue
                d = b.succ[1] if tv else b.succ[0]
                if d is not None:
                    dead.add((b.id, d))
        live = fn.reachable(removed_edges=dead)
        in_loop = set()
        for h, body, l in fn.loops():
            in_loop |= body
        sites = []
        for n, b, rk, ev in fn.calls():
            tok = token_of(n)
            if tok is None or b not in in_loop or b not in live:
                continue
            sites.append((tok, b))
        # per-width read/write functors handed to a shared loop helper: the tokens inside a lambda that is
        # written under the condition belong to that case (`DecodeRawFaces(n, [&](uint32_t *v) { ... })`)
        for blk, rk, tree, ev in fn.roots():
            if tree is None or blk.id not in live:
                continue
            for n in walk(tree):
                if n.get("k") not in ("lambda", "fn") or not n.get("m"):
                    continue
                body = F.by_m.get(n["m"])
                if body is None:
                    continue
                for tok in _tokens_deep(F, body, 0, set()):
                    sites.append((tok, n.get("b", blk.id)))
        # a per-width shared loop helper called under the condition (`DecodeRawFaces<uint8_t>(n, ...)`)
        for n, b, rk, ev in fn.calls():
            if n.get("k") != "call" or token_of(n) is not None or b not in live or n.get("virt"):
                continue
            if not (n.get("fn") or "").startswith(("draco::", "(anonymous")) or \
                    strip_targs(n.get("fn") or "").startswith(("draco::DecoderBuffer::", "draco::EncoderBuffer::",
                                                                "draco::DecodeSymbols", "draco::EncodeSymbols")):
                continue
            tg = F.targets(n)
            if len(tg) != 1 or tg[0].key == fn.key:
                continue
            inner_loops = set()
            for h_, body_, l_ in tg[0].loops():
                inner_loops |= body_
            toks = {token_of(n2) for n2, b2, rk2, ev2 in tg[0].calls() if b2 in inner_loops and token_of(n2)}
            for tok in toks:
                sites.append((tok, b))
        for tok, b in sites:
            atoms = set()
            for cb in fn.blocks.values():
                if cb.cond is None or len(cb.succ) != 2 or cb.labels is not None or cb.id not in live:
                    continue
                for oc in (True, False):
                    s_ = cb.succ[0] if oc else cb.succ[1]
                    if s_ is None or cb.succ[0] == cb.succ[1] or (cb.id, s_) in dead:
                        continue
                    if b in fn.reachable(removed_edges=dead | {(cb.id, s_)}):
                        continue          # this edge does not dominate the token
                    for a in known_atoms(cb.cond, oc, quantity, cur_version):
                        atoms.add(a)
            out.setdefault(frozenset(atoms), set()).add(tok)
    return out


def render(m):
    return {" & ".join("%s %s %d" % ("q", o, c) for o, c in sorted(k, key=lambda x: (x[1], x[0]))) or "always":
            sorted(v) for k, v in m.items()}


SAMPLES = (1, 2, 255, 256, 257, 65535, 65536, 65537, 2097151, 2097152, 2097153, 16777216)


def selector_samples(F, fn_base, quantity, cur_version, version_side):
    """{sample value of the quantity: sorted tokens reached}: the function is *evaluated* (verif/evalcfg) with the
    quantity pinned - whether it is a local, a getter or feeds a derived local (`max_index = n > 0 ? n - 1 : 0`) -
    and the stream tokens (also those inside read functors / shared loop helpers written under the deciding
    conditions) of the blocks that stay reachable are collected."""
    from .evalcfg import explore
    out = {}
    for fn in F.find(fn_base):
        VERSION_LOCALS["ids"] = version_locals(fn)
        dead = set()
        if version_side:
            for b in fn.blocks.values():
                if b.cond is None or len(b.succ) != 2:
                    continue
                tv = _version_truth(b.cond, cur_version)
                if tv is None:
                    continue
                d = b.succ[1] if tv else b.succ[0]
                if d is not None:
                    dead.add((b.id, d))
        sites = {}
        in_loop = set()
        for h, body, l in fn.loops():
            in_loop |= body
        for n, b, rk, ev in fn.calls():
            tok = token_of(n)
            if tok is not None and b in in_loop:
                sites.setdefault(b, set()).add(tok)
        for blk, rk, tree, ev in fn.roots():
            if tree is None:
                continue
            for n in walk(tree):
                if n.get("k") in ("lambda", "fn") and n.get("m") and F.by_m.get(n["m"]) is not None:
                    for tok in _tokens_deep(F, F.by_m[n["m"]], 0, set()):
                        sites.setdefault(n.get("b", blk.id), set()).add(tok)
        for n, b, rk, ev in fn.calls():
            if n.get("k") != "call" or token_of(n) is not None or n.get("virt"):
                continue
            if not (n.get("fn") or "").startswith(("draco::", "(anonymous")) or \
                    strip_targs(n.get("fn") or "").startswith(("draco::DecoderBuffer::", "draco::EncoderBuffer::",
                                                                "draco::DecodeSymbols", "draco::EncodeSymbols")):
                continue
            tg = F.targets(n)
            if len(tg) != 1 or tg[0].key == fn.key:
                continue
            inner = set()
            for h_, body_, l_ in tg[0].loops():
                inner |= body_
            for n2, b2, rk2, ev2 in tg[0].calls():
                if b2 in inner and token_of(n2):
                    sites.setdefault(b, set()).add(token_of(n2))
        # the quantity on the reader side is whatever local is handed to set_<quantity>() (rename-proof)
        qvars = set()
        for n, b, rk, ev in fn.calls():
            if strip_targs(n.get("fn") or "").rsplit("::", 1)[-1] == "set_" + quantity:
                for a in n.get("args", [])[:1]:
                    for x in walk(a):
                        if x.get("k") == "var" and "d" in x:
                            qvars.add(x["d"])
        for q in SAMPLES:
            got = set()

            def on_block(b, env):
                got.update(sites.get(b.id, ()))
                return True
            env0 = {("name", quantity): q, ("call", quantity): q}
            for d_ in qvars:
                env0[("v", d_)] = q
            explore(fn, env0, on_block, dead_edges=dead)
            out.setdefault(q, set()).update(got)
    return {q: sorted(v) for q, v in out.items()}
