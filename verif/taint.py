"""TAINT/GUARD engine (DESIGN §3.1).

Explicit-flow, flow-insensitive label propagation inside a function over E1
expression trees; inter-procedural summaries (param -> sink kind, param ->
out-labelled, return dependencies, alloc-sizing fields) computed to a fixpoint;
guards are CFG condition edges that dominate the sink and bound the label from
above by an accepted *kind* of quantity.
"""
from collections import defaultdict

from .facts import walk, strip_targs
from .cfgutil import dominating_edges, _strip_not

REM = ("rem",)                      # pseudo label: derived from remaining input size
SMALL_CONST = 1 << 20

REL_OPS = {"<", "<=", ">", ">=", "==", "!="}
NEG = {"<": ">=", "<=": ">", ">": "<=", ">=": "<", "==": "!=", "!=": "=="}
FLIP = {"<": ">", "<=": ">=", ">": "<", ">=": "<=", "==": "==", "!=": "!="}
ASSIGN_OPS = {"=", "+=", "-=", "*=", "/=", "%=", "|=", "&=", "^=", "<<=", ">>="}

# calls whose result carries the labels of their arguments / object
PASS_THROUGH_SUFFIX = ("::value", "::get", "::operator*", "::operator->",
                       "::operator[]", "::at", "::front", "::back", "::data",
                       "::begin", "::end", "::c_str")
PASS_THROUGH_FN = {"std::min", "std::max", "std::abs", "abs", "std::move",
                   "std::forward", "std::get", "std::swap"}
PASS_THROUGH_OPS = ("operator+", "operator-", "operator*", "operator/",
                    "operator++", "operator--", "operator+=", "operator-=",
                    "operator=", "operator unsigned int", "operator int")
PASS_CTOR_PREFIX = ("draco::IndexType<", "draco::VectorD<", "std::array<",
                    "std::pair<")


# sink kinds whose obligations are not chained through (object-insensitive)
# fields: the destination capacity of a write is the business of the function
# that owns both the length and the destination
NO_FIELD_SUMMARY = {"WRITELEN"}


def is_src(l):
    return l[0] == "src"


class Label:
    """Real stream-derived label = one source call site."""
    pass


class FnTaint:
    """Intra-procedural result for one function under current summaries."""

    def __init__(self, eng, fn):
        self.eng = eng
        self.fn = fn
        self.place_labels = defaultdict(dict)   # place -> label -> set(def blocks)
        self._at = None                         # block of the use being evaluated
        self._reach_cache = {}
        self.label_info = {}       # label -> dict(var, iw, site, callee)
        self._bounded_memo = {}
        self._param_place = {}
        for i, p in enumerate(fn.params):
            self._param_place[("v", p["d"])] = i
        self.counters = set()
        self.accumulators = {}          # local -> [(operand tree, block)] of its `+=` / `*=` / `<<=` with a non-constant operand
        self.head_vars = set()     # locals holding DecoderBuffer::data_head()
        self._propagate()

    # -- places ------------------------------------------------------------
    def place_of(self, t):
        for _ in range(30):
            if not isinstance(t, dict):
                return None
            k = t.get("k")
            if k == "var":
                if "d" in t:
                    return ("v", t["d"])
                if "g" in t:
                    return ("g", t["g"])
                return None
            if k == "field":
                return ("f", t.get("cls", "?"), t["n"])
            if k in ("un", "cast", "icast", "copy"):
                t = t.get("e")
                continue
            if k == "sub":
                t = t.get("base")
                continue
            if k == "call":
                fnname = strip_targs(t.get("fn") or "")
                if fnname.endswith(PASS_THROUGH_SUFFIX) and "obj" in t:
                    t = t.get("obj")
                    continue
                if fnname in ("std::move", "std::forward", "std::get") and t.get("args"):
                    t = t["args"][-1] if fnname == "std::get" else t["args"][0]
                    continue
                return None
            return None
        return None

    def owner_param_place(self, t):
        """For `p->f` / `p.f` / `(*p).f[..]` with p a parameter: p's place
        (a callee filling a caller-provided struct labels the struct)."""
        for _ in range(30):
            if not isinstance(t, dict):
                return None
            k = t.get("k")
            if k == "field":
                if "base" not in t:
                    return None
                b = t["base"]
                for _ in range(30):
                    if not isinstance(b, dict):
                        return None
                    kb = b.get("k")
                    if kb == "var":
                        pl = ("v", b["d"]) if "d" in b else None
                        return pl if pl in self._param_place else None
                    if kb in ("un", "cast", "icast", "copy"):
                        b = b.get("e")
                    elif kb == "field":
                        b = b.get("base")
                    elif kb == "sub":
                        b = b.get("base")
                    else:
                        return None
                return None
            if k in ("un", "cast", "icast", "copy"):
                t = t.get("e")
            elif k == "sub":
                t = t.get("base")
            else:
                return None
        return None

    def _initial(self, place):
        """Pseudo labels every read of a param / field carries."""
        if place is None:
            return set()
        if place in self._param_place:
            return {("param", self._param_place[place])}
        if place[0] == "f":
            return {("field", place[1], place[2])}
        return set()

    def _reaches(self, d, u):
        if d is None or u is None or d == u:
            return True
        r = self._reach_cache.get(d)
        if r is None:
            r = self._reach_cache[d] = self.fn.reachable(start=d)
        return u in r

    def labels_of_place(self, place):
        """Labels a read of `place` carries at block self._at: a label
        assigned in block D reaches a use in block U only if U is reachable
        from D in the CFG (flow-sensitivity 'lite')."""
        if place is None:
            return set()
        out = self._initial(place)
        defs = self.place_labels.get(place)
        if defs:
            at = self._at
            for l, ds in defs.items():
                if at is None or any(self._reaches(d, at) for d in ds):
                    out.add(l)
        return out

    # -- expression labels ---------------------------------------------------
    def labels(self, t, at=None):
        """Labels of expression t evaluated in block `at` (None: anywhere)."""
        if at is None:
            return self._labels(t)
        prev, self._at = self._at, at
        try:
            return self._labels(t)
        finally:
            self._at = prev

    def _labels(self, t):
        if not isinstance(t, dict):
            return set()
        k = t.get("k")
        if k in ("lit", "defarg", "this", "fn", "lambda", "new", "throw", "ref"):
            return set()
        if k == "var" or k == "field":
            if "v" in t and k == "var" and "d" not in t:
                return set()           # evaluated constant global
            out = set(self.labels_of_place(self.place_of(t)))
            if k == "field" and isinstance(t.get("base"), dict):
                # a field of a labelled object (struct filled by a callee)
                out |= {l for l in self._labels(t["base"]) if l[0] != "field"}
            return out
        if k in ("cast", "icast", "copy"):
            if "v" in t:
                return set()
            return self.labels(t.get("e"))
        if k == "un":
            if t.get("op") == "!":
                return set()
            return self.labels(t.get("e"))
        if k == "bin":
            op = t.get("op")
            if op in REL_OPS or op in ("&&", "||"):
                return set()
            if "v" in t:
                return set()
            if op == ",":
                return self.labels(t.get("r"))
            return self.labels(t.get("l")) | self.labels(t.get("r"))
        if k == "cond":
            return self.labels(t.get("t")) | self.labels(t.get("f"))
        if k == "sub":
            return self.labels(t.get("base"))
        if k == "list":
            out = set()
            for c in t.get("ch", []):
                out |= self.labels(c)
            return out
        if k == "ctor":
            cls = t.get("cls", "")
            if cls.startswith(PASS_CTOR_PREFIX):
                out = set()
                for a in t.get("args", []):
                    out |= self.labels(a)
                return out
            return set()
        if k == "call":
            return self._call_labels(t)
        if k == "other":
            out = set()
            for c in t.get("ch", []):
                out |= self.labels(c)
            return out
        return set()

    def _call_labels(self, t):
        eng = self.eng
        fnname = t.get("fn") or ""
        base = strip_targs(fnname)
        out = set()
        src = eng.sources.get(base)
        if src is not None and "ret" in src.get("out", []):
            out.add(self._mk_label(t, src, "ret"))
        if base in eng.rem_fns:
            return {REM}
        if base in PASS_THROUGH_FN:
            for a in t.get("args", []):
                out |= self.labels(a)
            return out
        short = base.rsplit("::", 1)[-1]
        if base.endswith(PASS_THROUGH_SUFFIX) or short.startswith(PASS_THROUGH_OPS):
            if "obj" in t:
                out |= self.labels(t["obj"])
            if short.startswith(("operator+", "operator-", "operator*", "operator/")):
                for a in t.get("args", []):
                    out |= self.labels(a)
            return out
        if base.endswith(("::size", "::empty", "::capacity")) and not base.startswith("draco::"):
            return out
        # summaries of callees with bodies
        for tgt in eng.F.targets(t):
            s = eng.summaries.get(tgt.key)
            if not s:
                continue
            args = t.get("args", [])
            for i in s["ret_deps"]:
                if i < len(args):
                    out |= self.labels(args[i])
            if s["ret_src"]:
                out.add(self._mk_label(t, {"why": "returns stream-derived value"}, "ret"))
            for (cls, name) in s["ret_fields"]:
                out |= self.labels_of_place(("f", cls, name))
            if s["ret_rem"]:
                out.add(REM)
        return out

    def _mk_label(self, call, src, which):
        lab = ("src", self.fn.key, call.get("i"), which)
        if lab not in self.label_info:
            self.label_info[lab] = {
                "site": self.fn.site(call.get("loc", "")),
                "callee": strip_targs(call.get("fn") or ""),
                "fn": self.fn.base,
                "which": which,
            }
        return lab

    # -- propagation --------------------------------------------------------
    def _add(self, place, labs, at=None):
        if place is None or not labs:
            return False
        cur = self.place_labels[place]
        changed = False
        for l in labs:
            ds = cur.setdefault(l, set())
            if at not in ds:
                ds.add(at)
                changed = True
        return changed

    def _propagate(self):
        fn, eng = self.fn, self.eng
        roots = list(fn.roots())
        for _ in range(12):
            changed = False
            for b, kind, tree, ev in roots:
                self._at = b.id
                if kind == "decl":
                    var = ev.get("var", {})
                    if tree is not None and "d" in var:
                        changed |= self._add(("v", var["d"]), self._labels(tree), b.id)
                        for s_ in walk(tree):
                            if s_.get("k") == "call" and strip_targs(s_.get("fn") or "") == \
                                    "draco::DecoderBuffer::data_head":
                                self.head_vars.add(("v", var["d"]))
                if kind == "minit" and ev.get("field") and fn.cls:
                    changed |= self._add(("f", fn.cls, ev["field"]), self._labels(tree), b.id)
                if tree is None:
                    continue
                for n in walk(tree):
                    k = n.get("k")
                    at = n.get("b", b.id)
                    self._at = at
                    if k == "bin" and n.get("op") in ASSIGN_OPS:
                        rl = self._labels(n.get("r"))
                        changed |= self._add(self.place_of(n.get("l")), rl, at)
                        changed |= self._add(self.owner_param_place(n.get("l")),
                                             {l for l in rl if l[0] != "param"}, at)
                        if n.get("op") in ("+=", "-="):
                            self.counters.add(self.place_of(n.get("l")))
                        if n.get("op") in ("+=", "*=", "<<=") and not (isinstance(n.get("r"), dict) and "v" in n["r"]):
                            pl = self.place_of(n.get("l"))
                            if pl is not None and pl[0] == "v":
                                lst = self.accumulators.setdefault(pl, [])
                                if not any(x[0] is n.get("r") for x in lst):
                                    lst.append((n.get("r"), at))
                    elif k == "un" and n.get("op") in ("++", "--"):
                        self.counters.add(self.place_of(n.get("e")))
                    elif k == "call":
                        changed |= self._call_effects(n, at)
            if not changed:
                break
        self._at = None

    def _call_effects(self, n, at=None):
        eng = self.eng
        base = strip_targs(n.get("fn") or "")
        args = n.get("args", [])
        changed = False
        src = eng.sources.get(base)
        if src is not None:
            for o in src.get("out", []):
                if o == "ret":
                    continue
                if o == "obj":
                    continue
                if isinstance(o, int) and o < len(args):
                    if src.get("nargs") is not None and len(args) != src["nargs"]:
                        continue
                    lab = self._mk_label(n, src, o)
                    place = self.place_of(args[o])
                    info = self.label_info[lab]
                    a = args[o]
                    # record the variable and its width for G3-by-type
                    for s in walk(a):
                        if s.get("k") in ("var", "field"):
                            info.setdefault("var", s.get("n"))
                            if s.get("k") == "field" and isinstance(s.get("base"), dict):
                                info.setdefault("dest_field", True)
                            if "iw" in s:
                                info.setdefault("iw", s["iw"])
                            break
                    if "bits_arg" in src and src["bits_arg"] < len(args):
                        ba = args[src["bits_arg"]]
                        while isinstance(ba, dict) and ba.get("k") == "icast" and "v" not in ba:
                            ba = ba.get("e")
                        if isinstance(ba, dict) and "v" in ba:
                            info["iw"] = min(info.get("iw", 64), int(ba["v"]))
                    changed |= self._add(place, {lab}, at)
                    changed |= self._add(self.owner_param_place(args[o]), {lab}, at)
        # member assignment operators: obj (=|+=|...) arg
        if n.get("opcall") and "obj" in n and args:
            short = base.rsplit("::", 1)[-1]
            if short.startswith("operator") and short[8:] in ASSIGN_OPS:
                changed |= self._add(self.place_of(n["obj"]), self.labels(args[0]), at)
                if short[8:] in ("+=", "-="):
                    self.counters.add(self.place_of(n["obj"]))
        # std::copy / memcpy style: dst gets src labels
        if base in ("memcpy", "std::memcpy", "memmove", "__builtin_memcpy") and len(args) >= 2:
            changed |= self._add(self.place_of(args[0]), self.labels(args[1]), at)
        # callee out-summaries
        for tgt in eng.F.targets(n):
            s = eng.summaries.get(tgt.key)
            if not s:
                continue
            for i, deps in s["out"].items():
                if i >= len(args):
                    continue
                labs = set()
                if "src" in deps:
                    labs.add(self._mk_out_label(n, i, tgt))
                if "rem" in deps:
                    labs.add(REM)
                for j in deps:
                    if isinstance(j, int) and j < len(args):
                        labs |= self.labels(args[j])
                    elif isinstance(j, tuple) and j and j[0] == "field":
                        labs.add(j)
                changed |= self._add(self.place_of(args[i]), labs, at)
            if n.get("obj") is not None and s["out_fields"] and not n.get("objthis"):
                # callee stores stream data in fields of the object
                pass
        return changed

    def _mk_out_label(self, call, i, tgt):
        lab = ("src", self.fn.key, call.get("i"), i)
        if lab not in self.label_info:
            info = {"site": self.fn.site(call.get("loc", "")),
                    "callee": strip_targs(call.get("fn") or ""),
                    "fn": self.fn.base, "which": i, "via": "callee writes stream data to out-param"}
            args = call.get("args", [])
            if i < len(args):
                for s in walk(args[i]):
                    if s.get("k") in ("var", "field"):
                        info["var"] = s.get("n")
                        if s.get("k") == "field":
                            info["dest_field"] = True
                        if "iw" in s:
                            info["iw"] = s["iw"]
                        break
            self.label_info[lab] = info
        return lab

    # -- guards ---------------------------------------------------------------
    def atoms(self, cond, outcome):
        """All relational atoms known to hold when `cond` evaluates to
        `outcome`: `a || b` false gives both negations, `a && b` true gives
        both (conditions with temporaries are joined into one value by the
        CFG builder instead of being split into short-circuit blocks)."""
        tree, oc = _strip_not(cond, outcome)
        if isinstance(tree, dict) and tree.get("k") == "bin" and tree.get("op") in ("||", "&&"):
            if (tree["op"] == "||" and not oc) or (tree["op"] == "&&" and oc):
                return self.atoms(tree.get("l"), oc) + self.atoms(tree.get("r"), oc)
            return []
        a = self.atom(tree, oc)
        return [a] if a is not None else []

    def atom(self, cond, outcome):
        """Normalise a condition under an outcome to (lhs, op, rhs) or None."""
        tree, oc = _strip_not(cond, outcome)
        if not isinstance(tree, dict):
            return None
        k = tree.get("k")
        l = r = op = None
        if k == "bin" and tree.get("op") in REL_OPS:
            l, op, r = tree.get("l"), tree["op"], tree.get("r")
        elif k == "call" and tree.get("opcall"):
            short = strip_targs(tree.get("fn") or "").rsplit("::", 1)[-1]
            if short.startswith("operator") and short[8:] in REL_OPS:
                op = short[8:]
                if "obj" in tree:
                    l, r = tree["obj"], (tree.get("args") or [None])[0]
                else:
                    a = tree.get("args") or [None, None]
                    l, r = a[0], a[1] if len(a) > 1 else None
        if op is None:
            return None
        if not oc:
            op = NEG[op]
        return (l, op, r)

    def expr_width(self, t):
        """Bit width in which an integer expression is computed (C++ usual
        arithmetic conversions, approximated from the leaf / cast widths)."""
        if not isinstance(t, dict):
            return 64
        k = t.get("k")
        if k in ("icast", "cast"):
            return t.get("iw") or self.expr_width(t.get("e"))
        if k in ("var", "field"):
            return max(t.get("iw") or 64, 32)
        if k == "lit":
            return 32
        if k == "bin":
            return max(self.expr_width(t.get("l")), self.expr_width(t.get("r")), 32)
        if k == "un":
            return self.expr_width(t.get("e"))
        if k == "call":
            return t.get("iw") or 64
        if k == "copy":
            return self.expr_width(t.get("e"))
        return 64

    def wraps(self, side):
        """Could the guarded side wrap around before it is compared?  A
        multiplication, addition or left shift carried out in fewer than 64
        bits on the stream-derived side (`5 * n > remaining`) makes the
        comparison pass for huge n."""
        # a running total kept in fewer than 64 bits (`total += n; if (total > limit) fail`) wraps just like
        # `total + n`: a huge n brings it back under the limit
        sp = side
        while isinstance(sp, dict) and sp.get("k") in ("icast", "cast", "copy", "paren") and "v" not in sp:
            sp = sp.get("e")
        if isinstance(sp, dict) and sp.get("k") == "var" and "d" in sp and (sp.get("iw") or 64) < 64:
            for rhs, at in self.accumulators.get(("v", sp["d"]), ()):
                for lab in self.labels(rhs, at):
                    if not is_src(lab):
                        continue
                    info = self.label_info.get(lab) or self.eng.label_info.get(lab) or {}
                    if (info.get("iw") or 32) >= 32:
                        return True      # a full-width stream value is added: the total can wrap
        for n in walk(side):
            if n.get("k") == "bin" and n.get("op") in ("*", "+", "<<") and "v" not in n:
                if self.expr_width(n) < 64:
                    return True
            # an unsigned count viewed as a signed value of the same (or smaller) width: 0x80000000 and above
            # become negative and pass every `> limit` rejection
            if n.get("k") in ("cast", "icast") and n.get("is") is True and "v" not in n:
                e = n.get("e")
                while isinstance(e, dict) and e.get("k") in ("copy", "paren"):
                    e = e.get("e")
                if isinstance(e, dict) and e.get("is") is False and (e.get("iw") or 0) >= 32 and \
                        (n.get("iw") or 64) <= (e.get("iw") or 0):
                    return True
        return False

    def bound_may_wrap(self, other, cblock):
        """The bound side is (a local initialised with) `x - c` for an unsigned x and a constant c > 0, and
        no dominating test establishes x >= c (x > 0, x != 0 ...): for x < c the bound wraps to a huge value
        (or, narrowed to IndexT, to the type's maximum) and the comparison rejects nothing."""
        t = other
        while isinstance(t, dict) and t.get("k") in ("icast", "cast", "copy", "paren") and "v" not in t:
            t = t.get("e")
        trees = [other]
        if isinstance(t, dict) and t.get("k") == "var" and "d" in t and "p" not in t:
            inits = [ev.get("e") for b, ev in self.fn.events()
                     if ev["k"] == "decl" and (ev.get("var") or {}).get("d") == t["d"] and isinstance(ev.get("e"), dict)]
            assigned = any(n.get("k") == "bin" and n.get("op", "").endswith("=") and n["op"] not in ("==", "!=", "<=", ">=")
                           and isinstance(n.get("l"), dict) and n["l"].get("k") == "var" and n["l"].get("d") == t["d"]
                           for b, kind, tree, e in self.fn.roots() if tree is not None for n in walk(tree))
            if len(inits) == 1 and not assigned:
                trees = inits
        for tree in trees:
            for n in walk(tree):
                if n.get("k") != "bin" or n.get("op") != "-" or "v" in n:
                    continue
                c = self.const_of(n.get("r"))
                if c is None or c <= 0:
                    continue
                x = n.get("l")
                while isinstance(x, dict) and x.get("k") in ("icast", "cast", "copy", "paren") and "v" not in x:
                    x = x.get("e")
                if not isinstance(x, dict) or x.get("is") is not False:
                    continue          # signed arithmetic: x - c is merely negative and rejects everything
                safe = False
                for cb, outcome, cond in dominating_edges(self.fn, cblock):
                    if isinstance(outcome, tuple):
                        continue
                    for l2, op2, r2 in self.atoms(cond, outcome):
                        for side, oth, o in ((l2, r2, op2), (r2, l2, FLIP[op2])):
                            if side is None or oth is None or not _tree_eq(side, x):
                                continue
                            k2 = self.const_of(oth)
                            if k2 is None:
                                continue
                            if (o == ">" and k2 >= c - 1) or (o == ">=" and k2 >= c) or (o == "!=" and k2 == 0 and c == 1):
                                safe = True
                if not safe:
                    return True
        return False

    def const_of(self, t):
        while isinstance(t, dict) and t.get("k") in ("icast", "cast", "copy") and "v" not in t:
            t = t.get("e")
        if isinstance(t, dict) and "v" in t and t.get("k") in ("lit", "icast", "cast", "bin", "un", "var", "defarg"):
            return t["v"]
        return None

    def label_small_by_type(self, lab):
        info = self.label_info.get(lab) or self.eng.label_info.get(lab)
        if info and info.get("iw") is not None and info["iw"] <= 16:
            return "G3T small by type: %d-bit source" % info["iw"]
        return None

    def bounded(self, lab, block, kinds, depth=0):
        """Return a description of why label is bounded above at block, or None."""
        key = (lab, block, kinds)
        if key in self._bounded_memo:
            return self._bounded_memo[key]
        self._bounded_memo[key] = None     # cycle cut
        res = self._bounded(lab, block, kinds, depth)
        self._bounded_memo[key] = res
        return res

    def _bounded(self, lab, block, kinds, depth):
        eng = self.eng
        if lab == REM:
            return "input-size derived"
        if is_src(lab):
            info = self.label_info.get(lab) or eng.label_info.get(lab) or {}
            dk = (info.get("fn"), info.get("var"))
            if "DECL" in kinds and dk in eng.declared:
                return "declared element count (%s in %s)" % (dk[1], dk[0])
            if "G3T" in kinds:
                s = self.label_small_by_type(lab)
                if s:
                    return s
        if depth > 6:
            return None
        for cb, outcome, cond in dominating_edges(self.fn, block):
            if isinstance(outcome, tuple):
                # switch edge: equality pin on the switch value
                if outcome[0] == "case" and ("G4" in kinds or "G3" in kinds):
                    if lab in self.labels(cond, cb.id):
                        return "G4 switch case %s at %s" % (outcome[1], self.fn.site(cb.tloc or ""))
                continue
            ats = self.atoms(cond, outcome)
            if not ats:
                # validation helper: bool call taking the value (guard summary)
                g = self._helper_guard(cond, outcome, lab, kinds)
                if g:
                    return g + " at %s" % self.fn.site(cb.tloc or "")
                continue
            why = self.atoms_bound(lab, ats, cb.id, kinds, depth)
            if why:
                return "%s `%s` (%s edge) at %s" % (
                    why, cb.condsrc, "true" if outcome else "false",
                    self.fn.site(cb.tloc or ""))
        g = self._switch_guard(lab, block, kinds)
        if g:
            return g
        return self._conditional_guard(lab, block, kinds, depth)

    def atoms_bound(self, lab, ats, cblock, kinds, depth=0):
        """Does one of the atoms (known to hold) bound the label above by an accepted kind?"""
        for l, op, r in ats:
            for side, other, o in ((l, r, op), (r, l, FLIP[op])):
                if side is None or other is None:
                    continue
                if lab not in self.labels(side, cblock):
                    continue
                if o not in ("<", "<=", "=="):
                    continue
                if o != "==" and self.wraps(side):
                    continue      # the guarded expression may wrap around
                why = self._other_kind(other, cblock, kinds, o, depth, lab)
                if why:
                    return why
        return None

    def sign_wraps(self, other):
        """`x <= static_cast<size_t>(signed expression)`: a negative bound becomes 2^64 - k and the
        comparison passes for every x.  Only non-constant signed sources count."""
        for n in walk(other):
            if n.get("k") in ("cast", "icast") and n.get("is") is False and (n.get("iw") or 0) >= 64 and "v" not in n:
                e = n.get("e")
                while isinstance(e, dict) and e.get("k") in ("copy", "paren"):
                    e = e.get("e")
                if isinstance(e, dict) and e.get("is") is True and "v" not in e and \
                        e.get("k") in ("call", "bin", "var", "field", "param") and (e.get("iw") or 0) >= 32:
                    if e.get("k") == "call" and strip_targs(e.get("fn") or "").endswith(("::size", "::num_points", "::num_faces")):
                        continue
                    return True
        return False

    def _switch_guard(self, lab, block, kinds):
        """`switch (x) { case A: case B: break; default: return false; }`:
        the switch dominates the sink and its default edge never reaches it,
        so x is pinned to the case set."""
        if "G4" not in kinds and "G3" not in kinds:
            return None
        fn = self.fn
        for cb in fn.blocks.values():
            if cb.labels is None or cb.cond is None:
                continue
            if not fn.block_dominates(cb.id, block) or cb.id == block:
                continue
            if lab not in self.labels(cb.cond, cb.id):
                continue
            others = [s for s, l in zip(cb.succ, cb.labels) if s is not None and not isinstance(l, dict)]
            cases = [l.get("case") for l in cb.labels if isinstance(l, dict)]
            if not others or not cases:
                continue
            if any(block in fn.reachable(start=o) for o in others):
                continue
            if any(c is None or abs(c) > SMALL_CONST for c in cases):
                continue
            return "G4 switch over cases %s with rejecting default at %s" % (
                sorted(set(cases)), fn.site(cb.tloc or ""))
        return None

    def _conditional_guard(self, lab, block, kinds, depth):
        """A guard nested under a context condition P (`if (P) { if (x >= n)
        return false; }`) protects a sink that is itself dominated by an
        equivalent test of P: paths that bypass the guard have P false."""
        fn = self.fn
        sink_edges = dominating_edges(fn, block)
        sink_atoms = []
        for cb, oc, cond in sink_edges:
            if isinstance(oc, tuple):
                continue
            sink_atoms += self.atoms(cond, oc)
        if not sink_atoms:
            return None
        sink_edge_ids = {(cb.id, oc) for cb, oc, _ in sink_edges if not isinstance(oc, tuple)}
        for cb in fn.blocks.values():
            if cb.cond is None or len(cb.succ) != 2 or cb.labels is not None:
                continue
            if cb.id not in fn.reach_all():
                continue
            for outcome in (True, False):
                passing = cb.succ[0] if outcome else cb.succ[1]
                failing = cb.succ[1] if outcome else cb.succ[0]
                if passing is None or failing is None or passing == failing:
                    continue
                if (cb.id, outcome) in sink_edge_ids:
                    continue
                # the failing outcome must never reach the sink
                if block in fn.reachable(start=failing):
                    continue
                if block not in fn.reachable(start=passing):
                    continue
                why = None
                for l, op, r in self.atoms(cb.cond, outcome):
                    for side, other, o in ((l, r, op), (r, l, FLIP[op])):
                        if side is None or other is None:
                            continue
                        if lab not in self.labels(side, cb.id) or o not in ("<", "<=", "=="):
                            continue
                        why = self._other_kind(other, cb.id, kinds, o, depth, lab)
                        if why:
                            break
                    if why:
                        break
                if not why:
                    continue
                # context of the guard that the sink does not share
                ctx = [(b2, oc2, c2) for b2, oc2, c2 in dominating_edges(fn, cb.id)
                       if not isinstance(oc2, tuple) and (b2.id, oc2) not in sink_edge_ids]
                ok = True
                for b2, oc2, c2 in ctx:
                    a2s = self.atoms(c2, oc2)
                    if not a2s or not all(any(_same_atom(a2, sa) for sa in sink_atoms)
                                          for a2 in a2s):
                        ok = False
                        break
                if ok and ctx:
                    return "%s `%s` (%s edge) at %s, under context re-tested before the sink (%s)" % (
                        why, cb.condsrc, "true" if outcome else "false",
                        fn.site(cb.tloc or ""),
                        "; ".join("`%s`" % b2.condsrc for b2, _, _ in ctx))
        return None

    def _other_kind(self, other, cblock, kinds, op, depth, lab):
        c = self.const_of(other)
        if c is not None:
            if op == "==" and "G4" in kinds:
                return "G4 equality pin"
            if "G3" in kinds and abs(c) <= SMALL_CONST:
                return "G3 small constant %d" % c
            if op == "==" and "G3" in kinds and abs(c) <= SMALL_CONST:
                return "G3 small constant %d" % c
            return None
        labs = self.labels(other, cblock)
        if lab in labs:
            return None
        if REM in labs:
            if "G1" in kinds:
                return "G1 input-bounded"
            return None
        if "G2" not in kinds:
            return None
        op_place = self.place_of(other)
        if op_place is not None and op_place[0] == "v" and op_place in self.counters:
            return None          # a loop counter is not an existing count
        if self.bound_may_wrap(other, cblock):
            return None          # `n - 1` of an unsigned n that may be 0 is 2^w - 1: no bound at all
        # every stream label on the other side must itself be bounded there
        sub_kinds = tuple(sorted(set(kinds) | {"G1", "G3", "G3T", "DECL"}))
        for l2 in labs:
            if is_src(l2):
                if not self.bounded(l2, cblock, sub_kinds, depth + 1):
                    return None
        return "G2 count-bounded"

    def _helper_guard(self, cond, outcome, lab, kinds):
        tree, oc = _strip_not(cond, outcome)
        if not isinstance(tree, dict) or tree.get("k") != "call" or not oc:
            return None
        args = tree.get("args", [])
        for tgt in self.eng.F.targets(tree):
            s = self.eng.summaries.get(tgt.key)
            if not s:
                continue
            # the value this very call wrote through an out-parameter, bounded by the callee before the store
            if isinstance(lab, tuple) and len(lab) == 4 and lab[0] == "src" and lab[1] == self.fn.key and \
                    lab[2] == tree.get("i") and isinstance(lab[3], int):
                gk = s.get("out_guards", {}).get(lab[3])
                if gk and (set(gk) & set(kinds)):
                    return "%s established by %s before it stores the value" % (sorted(set(gk) & set(kinds))[0], tgt.base)
            for i, gk in s["guards"].items():
                if i < len(args) and lab in self.labels(args[i], tree.get("b")) and (set(gk) & set(kinds)):
                    return "%s via validation helper %s" % (sorted(set(gk) & set(kinds))[0], tgt.base)
        return None


def _tree_eq(a, b):
    if not isinstance(a, dict) or not isinstance(b, dict):
        return a == b
    while a.get("k") == "icast":
        a = a.get("e")
        if not isinstance(a, dict):
            return False
    while b.get("k") == "icast":
        b = b.get("e")
        if not isinstance(b, dict):
            return False
    if a.get("k") != b.get("k"):
        return False
    k = a["k"]
    if k == "var":
        return a.get("d") == b.get("d") and a.get("g") == b.get("g")
    if k == "field":
        return a.get("n") == b.get("n") and a.get("cls") == b.get("cls") and \
            bool(a.get("this")) == bool(b.get("this")) and _tree_eq(a.get("base"), b.get("base"))
    if k == "lit":
        return a.get("v") == b.get("v") and a.get("s") == b.get("s")
    if k in ("un", "bin"):
        return a.get("op") == b.get("op") and _tree_eq(a.get("e"), b.get("e")) and \
            _tree_eq(a.get("l"), b.get("l")) and _tree_eq(a.get("r"), b.get("r"))
    if k == "call":
        if a.get("m") != b.get("m") or not _tree_eq(a.get("obj"), b.get("obj")):
            return False
        aa, bb = a.get("args", []), b.get("args", [])
        return len(aa) == len(bb) and all(_tree_eq(x, y) for x, y in zip(aa, bb))
    if k in ("cast", "copy"):
        return _tree_eq(a.get("e"), b.get("e"))
    return False


def _same_atom(a, b):
    """(l, op, r) equal up to mirroring."""
    (l1, o1, r1), (l2, o2, r2) = a, b
    if o1 == o2 and _tree_eq(l1, l2) and _tree_eq(r1, r2):
        return True
    if o1 == FLIP[o2] and _tree_eq(l1, r2) and _tree_eq(r1, l2):
        return True
    return False


class Engine:
    """Whole-scope fixpoint of summaries, then obligations for sink rules."""

    def __init__(self, F, scope_keys, sources, rem_fns, declared, sink_finders):
        self.F = F
        self.scope = [F.fns[k] for k in sorted(scope_keys) if k in F.fns]
        self.sources = sources
        self.rem_fns = set(rem_fns)
        self.declared = {(d["fn"], d["var"]) for d in declared}
        self.sink_finders = sink_finders     # list of callables fn -> [Sink]
        self.summaries = {}
        self.label_info = {}
        self.ft = {}
        self.sizing_fields = defaultdict(dict)   # (cls,name) -> kind -> desc
        self.rounds = 0
        self._reads_stream()
        self._run()

    def _reads_stream(self):
        """Keys of functions from which a stream-read primitive is reachable."""
        cg = self.F.callgraph()
        rev = defaultdict(set)
        for k, outs in cg.items():
            for o in outs:
                rev[o].add(k)
        seeds = [f.key for f in self.F.fns.values() if f.base in self.sources]
        seen, stack = set(seeds), list(seeds)
        while stack:
            k = stack.pop()
            for p in rev.get(k, ()):
                if p not in seen:
                    seen.add(p)
                    stack.append(p)
        self.reads_stream = seen

    def call_reads_stream(self, call):
        if strip_targs(call.get("fn") or "") in self.sources:
            return True
        return any(t.key in self.reads_stream for t in self.F.targets(call))

    def _empty(self):
        return {"sink": {}, "out": {}, "ret_deps": set(), "ret_src": False,
                "ret_fields": set(), "ret_rem": False, "out_fields": set(),
                "guards": {}, "out_guards": {}}

    def _plain_struct(self, cls):
        c = self.F.classes.get(cls)
        if c is None:
            return False
        own = c["name"].rsplit("::", 1)[-1]
        return not [m for m in c.get("methods", []) if m.get("sn") != own and
                    not m.get("sn", "").startswith(("~", "operator"))]

    def _summarise(self, fn):
        ft = FnTaint(self, fn)
        self.ft[fn.key] = ft
        self.label_info.update(ft.label_info)
        s = self._empty()
        # returns
        for b, ev in fn.returns():
            labs = ft.labels(ev.get("e"), b.id)
            for l in labs:
                if l[0] == "param":
                    s["ret_deps"].add(l[1])
                elif l[0] == "field":
                    s["ret_fields"].add((l[1], l[2]))
                elif l == REM:
                    s["ret_rem"] = True
                elif is_src(l):
                    s["ret_src"] = True
        # out params: pointer / reference params whose pointee gets labels
        for i, p in enumerate(fn.params):
            t = p.get("t", "")
            if not (t.endswith("*") or t.endswith("&")) or t.startswith("const ") and "*" not in t:
                continue
            if t.startswith("const ") and t.endswith("&"):
                continue
            labs = set(ft.place_labels.get(("v", p["d"]), {}))
            deps = set()
            for l in labs:
                if is_src(l):
                    deps.add("src")
                elif l == REM:
                    deps.add("rem")
                elif l[0] == "param" and l[1] != i:
                    deps.add(l[1])
                elif l[0] == "field" and self._plain_struct(l[1]):
                    deps.add(l)          # value copied out of a plain event struct filled from the stream
            if deps:
                s["out"][i] = deps
        # sinks on pseudo labels
        for finder in self.sink_finders:
            for sk in finder(self, ft, fn):
                if sk.pre:
                    continue
                for l in sk.labels:
                    if l[0] not in ("param", "field"):
                        continue
                    if l[0] == "field" and sk.kind in NO_FIELD_SUMMARY:
                        continue
                    if ft.bounded(l, sk.block, sk.kinds):
                        continue
                    desc = "%s in %s at %s" % (sk.what, fn.base, sk.site)
                    if l[0] == "param":
                        s["sink"].setdefault(l[1], {}).setdefault(sk.kind, (desc, sk.kinds))
                    else:
                        self.sizing_fields[(l[1], l[2])].setdefault(sk.kind, (desc, sk.kinds))
        # guard summaries: param bounded on every success return
        for i, p in enumerate(fn.params):
            if fn.ret.get("t") != "bool":
                continue
            lab = ("param", i)
            kinds_found = None
            ok = True
            n_ok = 0
            for b, ev in fn.returns():
                e = ev.get("e")
                if isinstance(e, dict) and e.get("k") == "lit" and e.get("v") == 0:
                    continue
                n_ok += 1
                why = ft.bounded(lab, b.id, ("G1", "G2", "G3", "G4"))
                if not why and isinstance(e, dict) and e.get("k") != "lit":
                    # `return a <= b;` / `return ok && n <= limit;`: the returned condition holds on success
                    why = ft.atoms_bound(lab, ft.atoms(e, True), b.id, ("G1", "G2", "G3", "G4"))
                if not why:
                    ok = False
                    break
                k = why.split()[0]
                kinds_found = (kinds_found or set()) | {k}
            if ok and n_ok and kinds_found:
                s["guards"][i] = sorted(kinds_found)
        # out-param guard summaries: `bool Read(.., uint32_t *out)` that stores only values it has bounded
        # (`if (n > remaining) return false; *out = n; return true;`) hands a bounded value to its caller
        if fn.ret.get("t") == "bool":
            for i in s["out"]:
                if i >= len(fn.params) or "d" not in fn.params[i]:
                    continue
                pd = fn.params[i]["d"]
                kinds_found, ok, n_st = set(), True, 0
                handed_on = False
                for n, b, rk, ev in fn.calls():
                    for a in n.get("args", []):
                        x = a
                        while isinstance(x, dict) and x.get("k") in ("icast", "cast", "copy", "paren"):
                            x = x.get("e")
                        if isinstance(x, dict) and x.get("k") == "var" and x.get("d") == pd:
                            handed_on = True       # a callee writes through it: not judged here
                for b, rk, tree, ev in fn.roots():
                    if tree is None:
                        continue
                    for n in walk(tree):
                        if n.get("k") != "bin" or n.get("op") != "=":
                            continue
                        l = n.get("l")
                        root = l
                        while isinstance(root, dict) and root.get("k") in ("un", "sub", "field", "icast", "cast", "paren"):
                            root = root.get("e") or root.get("base")
                        if not (isinstance(root, dict) and root.get("k") == "var" and root.get("d") == pd) or l is root:
                            continue
                        n_st += 1
                        for lab in ft.labels(n.get("r"), b.id):
                            if not is_src(lab):
                                continue
                            why = ft.bounded(lab, b.id, ("G1", "G2", "G3", "G4"))
                            if not why:
                                ok = False
                            else:
                                kinds_found.add(why.split()[0])
                if ok and n_st and kinds_found and not handed_on:
                    s["out_guards"][i] = sorted(kinds_found)
        return s

    def _run(self):
        for fn in self.scope:
            self.summaries[fn.key] = self._empty()
        for rnd in range(10):
            self.rounds = rnd + 1
            changed = False
            before_fields = {k: set(v) for k, v in self.sizing_fields.items()}
            for fn in self.scope:
                s = self._summarise(fn)
                old = self.summaries[fn.key]
                if _sig(s) != _sig(old):
                    changed = True
                self.summaries[fn.key] = s
            after_fields = {k: set(v) for k, v in self.sizing_fields.items()}
            if after_fields != before_fields:
                changed = True
            if not changed:
                break


def _sig(s):
    return (tuple(sorted((k, tuple(sorted(v))) for k, v in s["sink"].items())),
            tuple(sorted((k, tuple(sorted(map(str, v)))) for k, v in s["out"].items())),
            tuple(sorted(s["ret_deps"])), s["ret_src"], tuple(sorted(s["ret_fields"])),
            s["ret_rem"], tuple(sorted((k, tuple(v)) for k, v in s["guards"].items())),
            tuple(sorted((k, tuple(v)) for k, v in s.get("out_guards", {}).items())))


class Sink:
    def __init__(self, kind, kinds, node, block, labels, what, site, fn,
                 pre=None):
        self.pre = pre            # already discharged by a rule-specific argument
        self.kind = kind          # ALLOC / ENUMCAST / ...
        self.kinds = tuple(kinds)  # accepted guard kinds
        self.node = node
        self.block = block
        self.labels = labels
        self.what = what
        self.site = site
        self.fn = fn
