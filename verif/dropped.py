"""DROPPED: a failure that is produced must be consumed (DESIGN §3.2).

can-fail is computed (fixpoint over the resolved call graph), discarded
results are found from how the call expression is consumed in the AST.
"""
from .facts import walk, strip_targs
from .core import Obligation, DISCHARGED, VIOLATION, ALLOWED, NOTE


def ret_kind(t):
    if not t:
        return None
    t = t.replace("const ", "").strip()
    if t == "bool":
        return "bool"
    if t == "draco::Status":
        return "status"
    if t.startswith("draco::StatusOr<"):
        return "statusor"
    return None


def _ret_class(tree, kind):
    """'ok' | 'fail' | ('call', node) | 'unknown' for a returned expression."""
    if tree is None:
        return "unknown"
    k = tree.get("k")
    if k == "icast":
        return _ret_class(tree.get("e"), kind)
    if kind == "bool":
        if k == "lit" and "v" in tree:
            return "ok" if tree["v"] else "fail"
        if k == "call":
            return ("call", tree)
        return "unknown"
    # Status / StatusOr
    if k == "call":
        fn = tree.get("fn") or ""
        if fn == "draco::OkStatus":
            return "ok"
        return ("call", tree)
    if k == "copy":
        return _ret_class(tree.get("e"), kind)
    if k == "ctor":
        cls = tree.get("cls", "")
        args = tree.get("args", [])
        if cls == "draco::Status":
            if not args:
                return "ok"
            a0 = args[0]
            if isinstance(a0, dict) and a0.get("k") == "lit" and "v" in a0:
                return "ok" if a0["v"] == 0 else "fail"
            return "unknown"
        if cls.startswith("draco::StatusOr<"):
            if len(args) == 1:
                a0 = args[0]
                if isinstance(a0, dict):
                    sub = _ret_class(a0, "status")
                    # constructing from a value (not a Status) is success
                    if a0.get("k") in ("ctor", "copy") and \
                            a0.get("cls", "") == "draco::Status":
                        return sub
                    if a0.get("k") == "call" and ret_kind(a0.get("ret")) == "status":
                        return sub
                    t = a0.get("t") or a0.get("ret") or ""
                    if "draco::Status" in t and "StatusOr" not in t:
                        return "unknown"
                    return "ok"
            return "unknown"
    return "unknown"


def _failure_guards(fn, block_id):
    """Call nodes whose *failure* is a dominating condition of block_id:
    `if (!f(..)) <block>` / `if (f(..)) {} else <block>` /
    `Status s = f(..); if (!s.ok()) <block>`."""
    from .cfgutil import dominating_edges, _strip_not
    inits = fn.__dict__.get("_status_inits")
    if inits is None:
        inits = {}
        for b, kind, tree, ev in fn.roots():
            if kind == "decl" and isinstance(tree, dict):
                t = tree
                while isinstance(t, dict) and t.get("k") in ("copy", "icast"):
                    t = t.get("e")
                if isinstance(t, dict) and t.get("k") == "call" and "d" in ev.get("var", {}):
                    inits[ev["var"]["d"]] = t
        fn.__dict__["_status_inits"] = inits
    out = []
    for cb, oc, cond in dominating_edges(fn, block_id):
        if isinstance(oc, tuple):
            continue
        tree, pos = _strip_not(cond, oc)
        if not isinstance(tree, dict) or tree.get("k") != "call":
            continue
        if pos:
            continue          # the call *succeeded* on this edge
        base = strip_targs(tree.get("fn") or "")
        if base in ("draco::Status::ok", "draco::StatusOr::ok"):
            obj = tree.get("obj")
            while isinstance(obj, dict) and obj.get("k") in ("copy", "icast"):
                obj = obj.get("e")
            if isinstance(obj, dict) and obj.get("k") == "var" and obj.get("d") in inits:
                out.append(inits[obj["d"]])
            continue
        if ret_kind(tree.get("ret")):
            out.append(tree)
    return out


class CanFail:
    """Least set of functions that may report failure.  A failing return that
    is only reachable when a callee that cannot fail has failed is dead."""

    def __init__(self, F, extra_can_fail=()):
        self.F = F
        self.kind = {}
        self.cf = {}          # key -> reason string
        self.extra = set(extra_can_fail)
        self._compute()

    def _compute(self):
        F = self.F
        from .cfgutil import classify_return
        pending = {}          # key -> list of (reason, guards, returned_call)
        for fn in F.fns.values():
            k = ret_kind(fn.ret.get("t"))
            if fn.base in self.extra:
                self.kind[fn.key] = k or "int"
                self.cf[fn.key] = "table: error-code convention"
                continue
            if not k:
                continue
            self.kind[fn.key] = k
            items = []
            reach = fn.reach_all()
            for b, ev in fn.returns():
                if b.id not in reach:
                    continue
                c = classify_return(fn, b, ev)
                if c == "ok":
                    continue
                guards = _failure_guards(fn, b.id)
                site = fn.site(ev.get("loc", ""))
                if c == "fail":
                    items.append(("returns failure at %s" % site, guards, None))
                elif c == "unknown":
                    items.append(("returns a computed value at %s" % site, guards, None))
                else:
                    items.append(("returns result of %s" % c[1].get("fn"), guards, c[1]))
            pending[fn.key] = items
        changed = True
        while changed:
            changed = False
            for key, items in pending.items():
                if key in self.cf:
                    continue
                for reason, guards, rcall in items:
                    if rcall is not None and not self.call_can_fail(rcall):
                        continue
                    if any(self.F.targets(g) and not self.call_can_fail(g) for g in guards):
                        continue      # guarded by the failure of an infallible call
                    self.cf[key] = reason
                    changed = True
                    break

    def call_can_fail(self, call):
        """reason string if the call may report failure, else ''. """
        fnname = call.get("fn") or ""
        base = strip_targs(fnname)
        if base in self.extra:
            return "table: error-code convention"
        if not ret_kind(call.get("ret")):
            return ""
        ts = self.F.targets(call)
        if not ts:
            if fnname.startswith("draco::"):
                return "no body available (assumed fallible)"
            return ""
        for t in ts:
            if t.key in self.cf:
                return "%s: %s" % (t.name, self.cf[t.key])
        return ""


def _var_used_elsewhere(fn, did, defining_node_id):
    """Is local var 'did' referenced in any tree other than its definition?"""
    for b, kind, tree, ev in fn.roots():
        if tree is None:
            continue
        if kind == "decl" and ev.get("var", {}).get("d") == did:
            continue
        for n in walk(tree):
            if n.get("k") == "var" and n.get("d") == did:
                # an assignment target alone is not a use
                return True
    return False


def find_sites(F, scope_keys, cf, callee_filter, rule, allow, family_excluded,
               control_prefix="verif_control::"):
    """Yield Obligations for every can-fail call in scope."""
    out = []
    used_allow = set()
    rev = {}

    def callers_of(fn):
        if not rev:
            for k, outs in F.callgraph().items():
                for o in outs:
                    rev.setdefault(o, set()).add(k)
        return [F.fns[c] for c in rev.get(fn.key, ()) if c in F.fns]

    def allow_via_callers(fn, cbase, depth=0):
        """a file-local helper (anonymous namespace / lambda) inherits the allow entry when every caller
        has one for the same callee: the reviewed block of code was moved, not changed"""
        cs = callers_of(fn)
        if not cs:
            return None
        same_class = bool(fn.cls) and all(c.cls and strip_targs(c.cls) == strip_targs(fn.cls) for c in cs)
        if depth > 2 or not (fn.is_lambda or "(anonymous namespace)" in fn.name or same_class):
            return None
        keys = []
        for c in cs:
            k = "%s|%s" % (c.base, cbase)
            if k in allow:
                keys.append(k)
                continue
            sub = allow_via_callers(c, cbase, depth + 1)
            if sub is None:
                return None
            keys += sub
        return keys
    for key in sorted(scope_keys):
        fn = F.fns.get(key)
        if fn is None:
            continue
        is_control = fn.name.startswith(control_prefix)
        for n, b, kind, ev in fn.nodes():
            if n["k"] != "call":
                continue
            callee = n.get("fn") or ""
            cbase = strip_targs(callee)
            if not callee_filter(cbase, n):
                continue
            reason = cf.call_can_fail(n)
            if not reason:
                continue
            use = n.get("use")
            dropped = use in ("discard", "voidcast")
            if use == "init" and kind == "decl":
                did = ev.get("var", {}).get("d")
                if did is not None and not _var_used_elsewhere(fn, did, n.get("i")):
                    dropped = True
            site = fn.site(n.get("loc", ""))
            if cbase in family_excluded:
                out.append(Obligation(rule, fn.base, cbase, site, NOTE,
                                      detail="excluded family: " + family_excluded[cbase],
                                      trivial=True, control=is_control))
                continue
            if not dropped:
                out.append(Obligation(rule, fn.base, cbase, site, DISCHARGED,
                                      detail="result consumed (%s)" % use,
                                      by=use, trivial=False, control=is_control))
                continue
            akey = "%s|%s" % (fn.base, cbase)
            if akey in allow:
                used_allow.add(akey)
                out.append(Obligation(rule, fn.base, cbase, site, ALLOWED,
                                      detail="result discarded", by=allow[akey],
                                      control=is_control))
                continue
            via = allow_via_callers(fn, cbase)
            if via:
                used_allow.update(via)
                out.append(Obligation(rule, fn.base, cbase, site, ALLOWED,
                                      detail="result discarded in a file-local helper of an allowed site",
                                      by=allow[via[0]], control=is_control))
                continue
            out.append(Obligation(rule, fn.base, cbase, site, VIOLATION,
                                  detail="result of fallible call discarded (%s); callee can fail: %s"
                                  % (use, reason),
                                  control=is_control,
                                  extra={"src": ev.get("src", "")}))
    stale = sorted(set(allow) - used_allow)
    return out, stale


def cannot_fail_with_const_arg(F, cf, call, idx, value):
    """Does every target of `call` lack a reachable failing return when its
    parameter idx has the constant `value`?  Edges of conditions that test the
    parameter directly (p, !p, p == c, p != c) are pruned accordingly."""
    from .cfgutil import classify_return, _strip_not
    ts = F.targets(call)
    if not ts:
        return False
    from .evalcfg import explore
    for t in ts:
        # concrete evaluation of the callee with the parameter pinned: locals assigned from constants are
        # tracked (`bool ok = true; if (p) ok = Read(); if (!ok) return false;`), unknown conditions go both ways
        if idx >= len(t.params) or "d" not in t.params[idx]:
            return False
        bad = {"hit": False}
        fail_blocks = {}
        for b, ev in t.returns():
            c = classify_return(t, b, ev)
            if c == "ok":
                continue
            if isinstance(c, tuple) and not cf.call_can_fail(c[1]):
                continue
            fail_blocks[b.id] = c

        def on_block(b, env):
            if b.id in fail_blocks:
                bad["hit"] = True
                return False
            return True
        explore(t, {("v", t.params[idx]["d"]): int(value)}, on_block)
        if bad["hit"]:
            return False
    return True
