"""Mutation self-test: apply single-edit mutants of /repo to a scratch copy
(outside /repo and /verif), re-run the property's check on the copy and
record whether the violation is reported (and, for equivalent edits, that the
check stays silent).  Evidence only: never changes a check's exit code.

usage: python3 -m verif.selftest [ids...] [--jobs N]
"""
import json
import os
import shutil
import subprocess
import sys
import tempfile
import time
from concurrent.futures import ThreadPoolExecutor

VERIF = os.path.dirname(os.path.dirname(os.path.abspath(__file__)))
REPO = os.environ.get("VERIF_REPO", "/repo")


def load():
    ms = []
    d = os.path.join(VERIF, "selftest")
    for fn in sorted(os.listdir(d)):
        if fn.endswith(".json") and fn != "last_results.json":
            ms += json.load(open(os.path.join(d, fn)))
    return ms


def make_copy(dst):
    os.makedirs(dst)
    for item in ("src", "cmake", "CMakeLists.txt"):
        s = os.path.join(REPO, item)
        if os.path.isdir(s):
            shutil.copytree(s, os.path.join(dst, item), symlinks=True,
                            ignore=shutil.ignore_patterns("javascript", "maya", "unity"))
        else:
            shutil.copy(s, os.path.join(dst, item))
    b = os.path.join(REPO, "_build", "CMakeCache.txt")
    if os.path.exists(b):
        os.makedirs(os.path.join(dst, "_build"))
        shutil.copy(b, os.path.join(dst, "_build", "CMakeCache.txt"))


def apply_edits(root, m):
    for e in m["edits"]:
        p = os.path.join(root, e["file"])
        s = open(p).read()
        if s.count(e["find"]) != 1:
            return "edit does not apply uniquely in %s (%d matches)" % (e["file"], s.count(e["find"]))
        s = s.replace(e["find"], e["replace"])
        open(p, "w").write(s)
    return None


def run_one(m):
    t0 = time.time()
    tmp = tempfile.mkdtemp(prefix="verif-mut-")
    res = {"id": m["id"], "property": m["property"], "what": m["what"],
           "equivalent": bool(m.get("equivalent"))}
    try:
        root = os.path.join(tmp, "repo")
        make_copy(root)
        err = apply_edits(root, m)
        if err:
            res.update(outcome="not-applicable", detail=err)
            return res
        env = dict(os.environ)
        env["VERIF_REPO"] = root
        env["VERIF_EVIDENCE_DIR"] = os.path.join(tmp, "evidence")
        env["VERIF_CACHE_DIR"] = os.path.join(tmp, "cache")
        r = subprocess.run([sys.executable, "-m", "verif.check", m["property"], "--tier", "quick"],
                           cwd=VERIF, env=env, stdout=subprocess.PIPE,
                           stderr=subprocess.STDOUT, text=True)
        out = r.stdout
        res["exit"] = r.returncode
        if m.get("equivalent") and os.environ.get("VERIF_SELFTEST_ALLPROPS") and r.returncode == 0 and \
                not m.get("own_property_only"):
            # a behaviour-preserving edit must keep *every* claimed property's check silent
            man = json.load(open(os.path.join(VERIF, "MANIFEST.json")))
            for c in man["checks"]:
                if c["property_id"] == m["property"]:
                    continue
                r2 = subprocess.run([sys.executable, "-m", "verif.check", c["property_id"], "--tier", "quick"],
                                    cwd=VERIF, env=env, stdout=subprocess.PIPE, stderr=subprocess.STDOUT, text=True)
                if r2.returncode != 0:
                    r = r2
                    out = "[%s] " % c["property_id"] + r2.stdout
                    res["exit"] = r2.returncode
                    res["alarm_in"] = c["property_id"]
                    break
        viol = [l for l in out.splitlines() if l.strip().startswith("violation:")]
        res["reported"] = [v.strip()[:300] for v in viol[:5]]
        if m.get("equivalent"):
            res["outcome"] = "silent" if r.returncode == 0 else "FALSE-ALARM"
        else:
            hit = r.returncode == 1
            if hit and m.get("expect_rule"):
                hit = any("[%s]" % m["expect_rule"] in v for v in viol)
            if hit and m.get("expect_function"):
                hit = any(m["expect_function"] in v for v in viol)
            res["outcome"] = "detected" if hit else ("MISSED" if r.returncode in (0, 1) else "broken")
        if res["outcome"] in ("MISSED", "broken", "FALSE-ALARM"):
            res["tail"] = out[-1500:]
    finally:
        shutil.rmtree(tmp, ignore_errors=True)
    res["wall_s"] = round(time.time() - t0, 1)
    return res


def main(argv):
    jobs = 6
    ids = []
    it = iter(argv)
    for a in it:
        if a == "--jobs":
            jobs = int(next(it))
        else:
            ids.append(a)
    ms = load()
    if ids:
        ms = [m for m in ms if m["id"] in ids or m["property"] in ids]
    with ThreadPoolExecutor(jobs) as ex:
        results = list(ex.map(run_one, ms))
    for r in results:
        print("%-5s %-4s %-12s %s" % (r["id"], r["property"], r["outcome"], r["what"][:90]))
        if "tail" in r:
            print("      " + "\n      ".join(r["tail"].splitlines()[-8:]))
    det = sum(1 for r in results if r["outcome"] == "detected")
    tot = sum(1 for r in results if not r["equivalent"] and r["outcome"] != "not-applicable")
    sil = sum(1 for r in results if r["outcome"] == "silent")
    eq = sum(1 for r in results if r["equivalent"] and r["outcome"] != "not-applicable")
    print("mutants detected %d/%d; equivalent edits silent %d/%d" % (det, tot, sil, eq))
    if not ids:
        # full run: keep the outcome table for DESIGN.md (not evidence)
        json.dump({"results": [{k: r.get(k) for k in ("id", "property", "what", "outcome", "equivalent")}
                               for r in results]},
                  open(os.path.join(VERIF, "selftest", "last_results.json"), "w"), indent=1)
    return results


if __name__ == "__main__":
    main(sys.argv[1:])
