"""Sink finders for the TAINT/GUARD engine."""
from .facts import walk, strip_targs
from .taint import Sink, ASSIGN_OPS

INT_TYPES = ("unsigned long", "unsigned int", "int", "long", "unsigned short",
             "short", "unsigned char", "signed char", "char", "unsigned long long",
             "long long")

ALLOC_KINDS = ("G1", "G2", "G3", "G3T", "DECL")

ALLOC_METHODS = {
    "std::vector::resize": 0, "std::vector::reserve": 0, "std::vector::assign": 0,
    "std::basic_string::resize": 0, "std::basic_string::reserve": 0,
    "std::basic_string::assign": None, "std::deque::resize": 0,
    "std::vector<bool>::resize": 0,
}


def _is_int_param(call, i):
    pt = call.get("pt") or []
    return i < len(pt) and pt[i].replace("const ", "").strip() in INT_TYPES


def summary_sinks(eng, ft, fn, kind):
    """Sinks induced by callee summaries and by stores into sizing fields."""
    out = []
    for n, b, rk, ev in fn.nodes():
        k = n.get("k")
        if k in ("call", "ctor"):
            args = n.get("args", [])
            for tgt in eng.F.targets(n):
                s = eng.summaries.get(tgt.key)
                if not s:
                    continue
                for i, kinds in s["sink"].items():
                    if kind in kinds and i < len(args):
                        labs = ft.labels(args[i], b)
                        if labs:
                            desc, gk = kinds[kind]
                            out.append(Sink(kind, gk, n, b, labs,
                                            "argument %d of %s -> %s" % (i, tgt.base, desc),
                                            fn.site(n.get("loc", "")), fn))
        elif k == "bin" and n.get("op") in ASSIGN_OPS:
            pl = ft.place_of(n.get("l"))
            if pl and pl[0] == "f" and (pl[1], pl[2]) in eng.sizing_fields:
                kinds = eng.sizing_fields[(pl[1], pl[2])]
                if kind in kinds:
                    labs = ft.labels(n.get("r"), b)
                    # do not chain a field onto itself
                    labs = {l for l in labs if l != ("field", pl[1], pl[2])}
                    if labs:
                        desc, gk = kinds[kind]
                        out.append(Sink(kind, gk, n, b, labs,
                                        "store to field %s::%s -> %s" % (pl[1], pl[2], desc),
                                        fn.site(n.get("loc", "")), fn))
    return out


def alloc_sinks(eng, ft, fn):
    out = []
    for n, b, rk, ev in fn.nodes():
        k = n.get("k")
        if k == "call":
            base = strip_targs(n.get("fn") or "")
            if base in ALLOC_METHODS:
                idx = ALLOC_METHODS[base]
                args = n.get("args", [])
                if idx is None:
                    continue
                if idx < len(args) and _is_int_param(n, idx):
                    labs = ft.labels(args[idx], b)
                    if labs:
                        out.append(Sink("ALLOC", ALLOC_KINDS, n, b, labs,
                                        "%s(size)" % base, fn.site(n.get("loc", "")), fn))
        elif k == "ctor":
            cls = n.get("cls", "")
            if cls.startswith(("std::vector<", "std::basic_string<", "std::deque<")):
                args = n.get("args", [])
                if args and _is_int_param(n, 0):
                    labs = ft.labels(args[0], b)
                    if labs:
                        out.append(Sink("ALLOC", ALLOC_KINDS, n, b, labs,
                                        "sized constructor of %s" % strip_targs(cls),
                                        fn.site(n.get("loc", "")), fn))
        elif k == "new" and "array" in n:
            labs = ft.labels(n.get("array"), b)
            if labs:
                out.append(Sink("ALLOC", ALLOC_KINDS, n, b, labs,
                                "new %s[size]" % n.get("t"), fn.site(n.get("loc", "")), fn))
    out += summary_sinks(eng, ft, fn, "ALLOC")
    return out


def _is_checked_read(eng, n):
    """A status-returning stream read (value through an out-parameter or a
    Status): its failure means the input is exhausted.  Calls that return the
    decoded *data* (DecodeNextBit, rans_read) yield zeros past the end and do
    not bound anything."""
    if n.get("use") not in ("cond", "ret"):
        return False
    if not eng.call_reads_stream(n):
        return False
    ret = (n.get("ret") or "").replace("const ", "")
    return bool(n.get("outs")) or ret.startswith("draco::Status")


GROW_SHORT = {"push_back", "emplace_back", "insert", "emplace", "push",
              "push_front", "append", "AddFace", "AddEntryBinary",
              "AddEntryString", "AddEntryInt", "AddEntryDouble", "AddEntry",
              "AddSubMetadata", "AddAttributeMetadata", "AddAttribute",
              "AddAttributeToCurrentDecoder"}
LOOP_KINDS = ("G1", "G2", "G3", "G3T", "DECL")


def loopgrow_sinks(eng, ft, fn):
    """A loop whose bound is stream-derived and whose body grows a container."""
    out = []
    loops = fn.loops()
    if not loops:
        return out
    node_block = None
    for header, body, latches in loops:
        # the loop's own condition: header (following a short-circuit chain)
        # and, for do-while, the latch
        cand, cur = [], header
        for _ in range(8):
            blk = fn.blocks[cur]
            if blk.cond is None or len(blk.succ) != 2:
                break
            cand.append(blk)
            if blk.term and blk.term.startswith("BinaryOperator"):
                nxt = [x for x in blk.succ if x is not None and x in body and x != header]
                if not nxt:
                    break
                cur = nxt[0]
                continue
            break
        for lb in latches:
            blk = fn.blocks[lb]
            if blk.cond is not None and len(blk.succ) == 2 and blk not in cand:
                cand.append(blk)
        bound_labels, cond_src, cond_block = set(), "", None
        for blk in cand:
            if all(x in body for x in blk.succ if x is not None):
                continue
            labs = set()
            for l, op, r in ft.atoms(blk.cond, True):
                labs |= ft.labels(l, blk.id) | ft.labels(r, blk.id)
            if labs:
                bound_labels |= labs
                cond_src, cond_block = blk.condsrc, blk
        if not bound_labels:
            continue
        if node_block is None:
            node_block = [(n, b) for n, b, rk, ev in fn.nodes() if n.get("k") == "call"]
        grows = [(n, b) for n, b in node_block if b in body and
                 strip_targs(n.get("fn") or "").rsplit("::", 1)[-1] in GROW_SHORT]
        if not grows:
            continue
        reads = [(n, b) for n, b in node_block if b in body and _is_checked_read(eng, n)]
        for g, gb in grows:
            pre = None
            for rn, rb in reads:
                if rb != gb and fn.block_dominates(rb, gb) or (rb == gb and rn.get("i", 0) < g.get("i", 0)):
                    pre = "each iteration consumes input: checked read %s at %s dominates the growth" % (
                        strip_targs(rn.get("fn") or ""), fn.site(rn.get("loc", "")))
                    break
            gname = strip_targs(g.get("fn") or "")
            out.append(Sink("LOOPGROW", LOOP_KINDS, g, header, bound_labels,
                            "loop `%s` grows via %s" % (cond_src, gname),
                            fn.site(g.get("loc", "")), fn, pre=pre))
    out += summary_sinks(eng, ft, fn, "LOOPGROW")
    return out


# ---------------------------------------------------------------------------
ENUM_KINDS = ("G3", "G4")


def enumcast_sinks(eng, ft, fn):
    """Conversion of a stream-derived integer to an enumeration type."""
    out = []
    for n, b, rk, ev in fn.nodes():
        if n.get("k") == "cast" and n.get("toenum"):
            labs = ft.labels(n.get("e"), b)
            if labs:
                pre = None
                e = n.get("e")
                while isinstance(e, dict) and e.get("k") == "icast":
                    e = e.get("e")
                en = eng.F.enums.get(n.get("to"))
                if isinstance(e, dict) and e.get("k") == "field" and "bw" in e and en:
                    mx = max([x["v"] for x in en["enumerators"]] or [0])
                    rng = (1 << max(1, mx.bit_length())) - 1
                    if (1 << e["bw"]) - 1 <= rng:
                        pre = "operand is a %d-bit bit-field; every value lies in the value range of %s" % (
                            e["bw"], n.get("to"))
                out.append(Sink("ENUMCAST", ENUM_KINDS, n, b, labs,
                                "%s cast to enum %s" % (n.get("style"), n.get("to")),
                                fn.site(n.get("loc", "")), fn, pre=pre))
    out += summary_sinks(eng, ft, fn, "ENUMCAST")
    return out


SUB_KINDS = ("G2", "G3", "G4")
SUBSCRIPT_CALLS = ("::operator[]", "::at")


def subscript_sinks(eng, ft, fn):
    """Stream-derived value used as an index."""
    out = []
    for n, b, rk, ev in fn.nodes():
        k = n.get("k")
        if k == "sub":
            labs = ft.labels(n.get("idx"), b)
            if labs:
                out.append(Sink("SUBSCRIPT", SUB_KINDS, n, b, labs,
                                "array subscript", fn.site(n.get("loc", "")), fn))
        elif k == "call":
            base = strip_targs(n.get("fn") or "")
            if base.endswith(SUBSCRIPT_CALLS) and n.get("args"):
                if base.startswith(("std::map", "std::unordered_map")):
                    continue
                labs = ft.labels(n["args"][0], b)
                if labs:
                    out.append(Sink("SUBSCRIPT", SUB_KINDS, n, b, labs,
                                    "index of %s" % base, fn.site(n.get("loc", "")), fn))
    return out


RAW_KINDS = ("G1",)


def rawwin_sinks(eng, ft, fn):
    """Raw windows into the input: Advance/StartDecodingFrom with a
    stream-derived amount, and calls that take data_head() plus a length."""
    out = []
    for n, b, rk, ev in fn.nodes():
        if n.get("k") not in ("call", "ctor"):
            continue
        base = strip_targs(n.get("fn") or "")
        args = n.get("args", [])
        if base in ("draco::DecoderBuffer::Advance", "draco::DecoderBuffer::StartDecodingFrom"):
            labs = ft.labels(args[0], b) if args else set()
            if labs:
                out.append(Sink("RAWWIN", RAW_KINDS, n, b, labs, "%s(amount)" % base,
                                fn.site(n.get("loc", "")), fn))
            continue
        # a call one of whose arguments is (derived from) data_head()
        has_head = False
        for a in args:
            for s in walk(a):
                if s.get("k") == "call" and strip_targs(s.get("fn") or "") == "draco::DecoderBuffer::data_head":
                    has_head = True
                elif s.get("k") == "var" and ("v", s.get("d")) in ft.head_vars:
                    has_head = True
        if not has_head:
            continue
        for i, a in enumerate(args):
            if not _is_int_param(n, i):
                continue
            labs = ft.labels(a, b)
            if labs:
                out.append(Sink("RAWWIN", RAW_KINDS, n, b, labs,
                                "window (data_head, length) passed to %s" % base,
                                fn.site(n.get("loc", "")), fn))
    return out


FACE_KINDS = ("G2",)


def faceidx_sinks(eng, ft, fn):
    """Stream-derived values stored as face indices.  The obligation sits at
    each *store* into the face object that is later handed to
    Mesh::AddFace/SetFace (the per-index loop makes the store, not the
    AddFace call, the place a guard can dominate)."""
    out = []
    face_places = {}
    for n, b, rk, ev in fn.nodes():
        if n.get("k") != "call":
            continue
        base = strip_targs(n.get("fn") or "")
        if base not in ("draco::Mesh::AddFace", "draco::Mesh::SetFace"):
            continue
        args = n.get("args", [])
        if not args:
            continue
        pl = ft.place_of(args[-1])
        if pl is not None:
            face_places[pl] = base
        else:
            labs = ft.labels(args[-1], b)
            if labs:
                out.append(Sink("FACEIDX", FACE_KINDS, n, b, labs,
                                "face indices passed to %s" % base,
                                fn.site(n.get("loc", "")), fn))
    if face_places:
        for n, b, rk, ev in fn.nodes():
            k = n.get("k")
            tgt = val = None
            if k == "bin" and n.get("op") == "=":
                tgt, val = n.get("l"), n.get("r")
            elif k == "call" and n.get("opcall") and "obj" in n and n.get("args") and \
                    strip_targs(n.get("fn") or "").endswith("::operator="):
                tgt, val = n["obj"], n["args"][0]
            if tgt is None:
                continue
            pl = ft.place_of(tgt)
            if pl in face_places:
                labs = ft.labels(val, b)
                if labs:
                    out.append(Sink("FACEIDX", FACE_KINDS, n, b, labs,
                                    "index stored in the face handed to %s" % face_places[pl],
                                    fn.site(n.get("loc", "")), fn))
    out += summary_sinks(eng, ft, fn, "FACEIDX")
    return out


def _loop_conditions(fn, header, body, latches):
    cand, cur = [], header
    for _ in range(8):
        blk = fn.blocks[cur]
        if blk.cond is None or len(blk.succ) != 2:
            break
        cand.append(blk)
        if blk.term and blk.term.startswith("BinaryOperator"):
            nxt = [x for x in blk.succ if x is not None and x in body and x != header]
            if not nxt:
                break
            cur = nxt[0]
            continue
        break
    for lb in latches:
        blk = fn.blocks[lb]
        if blk.cond is not None and len(blk.succ) == 2 and blk not in cand:
            cand.append(blk)
    return [blk for blk in cand if not all(x in body for x in blk.succ if x is not None)]


def loopbound_sinks(eng, ft, fn):
    """Every loop whose own condition compares with a stream-derived value:
    the bound needs a guard (G1/G2/G3/declared) before the loop, or every
    iteration performs a checked stream read (so the input bounds the count)."""
    out = []
    calls = None
    for header, body, latches in fn.loops():
        labs, src = set(), ""
        for blk in _loop_conditions(fn, header, body, latches):
            for l, op, r in ft.atoms(blk.cond, True):
                labs |= ft.labels(l, blk.id) | ft.labels(r, blk.id)
                src = blk.condsrc
        if not labs:
            continue
        if calls is None:
            calls = [(n, b) for n, b, rk, ev in fn.nodes() if n.get("k") == "call"]
        pre = None
        for n, b in calls:
            if b in body and _is_checked_read(eng, n) and \
                    all(fn.block_dominates(b, lt) for lt in latches):
                pre = "every iteration performs the checked read %s at %s" % (
                    strip_targs(n.get("fn") or ""), fn.site(n.get("loc", "")))
                break
        hb = fn.blocks[header]
        out.append(Sink("LOOPBOUND", LOOP_KINDS, {"i": None}, header, labs,
                        "loop `%s`" % src, fn.site(hb.tloc or ""), fn, pre=pre))
    out += summary_sinks(eng, ft, fn, "LOOPBOUND")
    return out


WRITE_KINDS = ("G2", "G3", "G4")
SIZING = ("::resize", "::assign", "::reserve")


def writelen_sinks(eng, ft, fn):
    """A stream-derived byte count used as the length of a write into memory
    (DecoderBuffer::Decode(dst, n), memcpy/memmove(dst, .., n)) must be bounded
    by the destination's capacity (G2) or a constant (G3) - the remaining
    input (G1) and smallness by type say nothing about the destination - or
    the destination must have been sized by the same value."""
    out = []
    sized = {}          # place -> labels of the size it was given, block
    for n, b, rk, ev in fn.nodes():
        k = n.get("k")
        if k == "call" and strip_targs(n.get("fn") or "").endswith(SIZING) and n.get("args"):
            pl = ft.place_of(n.get("obj"))
            if pl is not None:
                sized.setdefault(pl, []).append((ft.labels(n["args"][0], b), b))
        elif k == "ctor" and n.get("cls", "").startswith(("std::vector<", "std::basic_string<")) and n.get("args"):
            if rk == "decl" and "d" in ev.get("var", {}):
                sized.setdefault(("v", ev["var"]["d"]), []).append((ft.labels(n["args"][0], b), b))
    for n, b, rk, ev in fn.nodes():
        if n.get("k") != "call":
            continue
        base = strip_targs(n.get("fn") or "")
        args = n.get("args", [])
        dst = ln = None
        if base == "draco::DecoderBuffer::Decode" and len(args) == 2:
            dst, ln = args[0], args[1]
        elif base in ("memcpy", "std::memcpy", "memmove", "__builtin_memcpy") and len(args) == 3:
            dst, ln = args[0], args[2]
        if ln is None:
            continue
        labs = ft.labels(ln, b)
        if not labs:
            continue
        pre = None
        dpl = ft.place_of(dst)
        for slabs, sb in sized.get(dpl, []):
            if (slabs & labs) and fn.block_dominates(sb, b):
                pre = "destination was sized by the same stream value before the write"
        out.append(Sink("WRITELEN", WRITE_KINDS, n, b, labs, "%s(dst, length)" % base,
                        fn.site(n.get("loc", "")), fn, pre=pre))
    out += summary_sinks(eng, ft, fn, "WRITELEN")
    return out
