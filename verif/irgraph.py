"""E2: whole-library call graph and global effects over dreach facts."""
import json
import subprocess
from collections import defaultdict


class IRGraph:
    def __init__(self, path):
        d = json.load(open(path))
        self.fns = d["functions"]
        self.globals = {g["name"]: g for g in d["globals"]}
        self.vtables = d["vtables"]
        self.aliases = d.get("aliases", {})
        self.ctors = d.get("global_ctors", [])
        # slot -> sig -> set(function names)
        self.slots = defaultdict(lambda: defaultdict(set))
        for vt, arrays in self.vtables.items():
            for arr in arrays:
                for i, f in enumerate(arr):
                    if f is None or i < 2:
                        continue
                    sig = self.fns.get(f, {}).get("sig")
                    if sig is not None:
                        self.slots[i - 2][sig].add(f)
        # address-taken functions by signature
        self.addr = defaultdict(set)
        for name, f in self.fns.items():
            for a in f.get("addr", []):
                sig = self.fns.get(a, {}).get("sig")
                if sig is not None:
                    self.addr[sig].add(a)
        self.n_virtual_sites = sum(len(f.get("virt", [])) for f in self.fns.values())
        self.n_indirect_sites = sum(len(f.get("ind", [])) for f in self.fns.values())
        self._demangled = None

    def resolve(self, name):
        return self.aliases.get(name, name)

    def callees(self, name):
        f = self.fns.get(name)
        if f is None:
            return set()
        out = set(self.resolve(c) for c in f.get("calls", []))
        for slot, sig in f.get("virt", []):
            out |= self.slots.get(slot, {}).get(sig, set())
        for sig in f.get("ind", []):
            out |= self.addr.get(sig, set())
        # callbacks handed to library algorithms are (over-approximated as) called
        out |= set(self.resolve(a) for a in f.get("addr", []))
        return out

    def reach(self, entries):
        seen, stack = set(), [self.resolve(e) for e in entries]
        parent = {}
        while stack:
            n = stack.pop()
            if n in seen:
                continue
            seen.add(n)
            for c in self.callees(n):
                if c not in seen:
                    parent.setdefault(c, n)
                    stack.append(c)
        self.parent = parent
        return seen

    def path_to(self, name):
        p, out = name, [name]
        for _ in range(60):
            p = self.parent.get(p)
            if p is None:
                break
            out.append(p)
        return list(reversed(out))

    def demangle(self, names):
        names = list(names)
        if not names:
            return {}
        r = subprocess.run(["llvm-cxxfilt-14"], input="\n".join(names), stdout=subprocess.PIPE, text=True)
        return dict(zip(names, r.stdout.splitlines()))
