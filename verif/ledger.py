"""LEDGER: the format constants of the current tree equal the frozen ledger
(rules/format_ledger.json).  Enumerators and integral constants come from E1's
evaluated facts; constexpr functions, constexpr arrays, macros and struct
layout are checked by a generated static_assert witness TU (E3)."""
import os
import re
import shutil
import subprocess
import tempfile

from .core import Obligation, DISCHARGED, VIOLATION, load_table
from .substrate import AnalysisBroken, REPO
from .dispatch_check import reader_tables

HEADERS = ["draco/compression/config/compression_shared.h",
           "draco/compression/entropy/rans_symbol_coding.h",
           "draco/compression/mesh/mesh_edgebreaker_shared.h",
           "draco/core/draco_types.h", "<cstddef>"]


def check_facts(ctx, rep, led):
    F = ctx.F
    n = 0
    for en, vals in led["enums"].items():
        e = F.enums.get(en)
        if e is None:
            rep.broken("ledger enum vanished: " + en)
            continue
        cur = {x["n"]: x["v"] for x in e["enumerators"]}
        for name, v in vals.items():
            n += 1
            if name not in cur:
                rep.broken("ledger enumerator vanished: %s::%s" % (en, name))
                continue
            rep.add(Obligation("LEDGER", en, name, e["loc"], DISCHARGED if cur[name] == v else VIOLATION,
                               detail="enumerator value %s (ledger %s)" % (cur[name], v), trivial=True))
        extra = sorted(set(cur) - set(vals))
        if extra:
            rep.note("enumerators of %s outside the ledger (sentinels / new ids): %s" % (en, ", ".join(extra)))
    for cn, v in led["constants"].items():
        g = F.globals.get(cn)
        if g is None:
            rep.broken("ledger constant vanished: " + cn)
            continue
        n += 1
        rep.add(Obligation("LEDGER", "constant", cn, g["loc"], DISCHARGED if g.get("v") == v else VIOLATION,
                           detail="value %s (ledger %s)" % (g.get("v"), v), trivial=True))
    # rANS base: for every instantiated precision p, l_rans_base == 4 * 2^p on
    # both coder sides (relation, independent of which p the build instantiates)
    import re as _re
    for k, g in sorted(F.globals.items()):
        m = _re.match(r"draco::RAns(Encoder|Decoder)<(\d+)>::l_rans_base$", k)
        if m:
            p = int(m.group(2))
            n += 1
            rep.add(Obligation("LEDGER", "constant", k, g["loc"],
                               DISCHARGED if g.get("v") == 4 * (1 << p) else VIOLATION,
                               detail="l_rans_base %s (ledger relation 4*2^%d = %d)" % (g.get("v"), p, 4 << p),
                               trivial=True))
    return n


def witness_source(led, extra=()):
    lines = []
    for h in HEADERS:
        lines.append("#include %s" % (h if h.startswith("<") else '"%s"' % h))
    lines.append('#define W(id, ...) static_assert(__VA_ARGS__, "WITNESS:" id)')
    ids = []

    def w(i, expr):
        ids.append(i)
        lines.append('W("%s", %s);' % (i, expr))
    for n, v in led["precision"].items():
        w("precision(%s)" % n, "draco::ComputeRAnsPrecisionFromUniqueSymbolsBitLength(%s) == %s" % (n, v))
    for an, vals in led["arrays"].items():
        w("len(%s)" % an, "sizeof(%s) / sizeof(%s[0]) == %d" % (an, an, len(vals)))
        for i, v in enumerate(vals):
            w("%s[%d]" % (an, i), "static_cast<int>(%s[%d]) == %d" % (an, i, v))
    w("METADATA_FLAG_MASK", "METADATA_FLAG_MASK == %s" % led["macros"]["METADATA_FLAG_MASK"])
    for k, v in led["layout"].items():
        w(k, "%s == %d" % (k, v))
    for i, e in extra:
        w(i, e)
    return "\n".join(lines) + "\n", ids


def run_witness(ctx, rep, src, ids, rule="LEDGER"):
    tmp = tempfile.mkdtemp(prefix="verif-e3-")
    try:
        p = os.path.join(tmp, "witness.cc")
        open(p, "w").write(src)
        cmd = ["clang++", "-fsyntax-only", "-ferror-limit=0", "-std=gnu++17", "-w"] + \
            ctx.sub.include_flags() + [p]
        r = subprocess.run(cmd, stdout=subprocess.PIPE, stderr=subprocess.STDOUT, text=True)
        failed = set(re.findall(r'static_assert failed[^"]*"WITNESS:([^"]+)"', r.stdout))
        other = [l for l in r.stdout.splitlines() if "error:" in l and "static_assert failed" not in l]
        if other:
            raise AnalysisBroken("witness TU does not compile (anchor moved?): " + other[0][:300])
        if r.returncode != 0 and not failed:
            raise AnalysisBroken("witness TU failed: " + r.stdout[-400:])
        for i in ids:
            rep.add(Obligation(rule, "witness", i, "generated static_assert", 
                               VIOLATION if i in failed else DISCHARGED,
                               detail="static_assert %s" % ("FAILED: value differs from the ledger"
                                                            if i in failed else "holds"), trivial=True))
        return len(ids)
    finally:
        shutil.rmtree(tmp, ignore_errors=True)


def check_ans_macros(ctx, rep, led):
    """ans.h #undef's its macros, so they are read from -E -dD."""
    hdr = os.path.join(REPO, "src", "draco", "compression", "entropy", "ans.h")
    if not os.path.exists(hdr):
        raise AnalysisBroken("ans.h not found")
    cmd = ["clang++", "-E", "-dD", "-std=gnu++17", "-w", "-x", "c++"] + ctx.sub.include_flags() + [hdr]
    r = subprocess.run(cmd, stdout=subprocess.PIPE, stderr=subprocess.DEVNULL, text=True)
    defs = {}
    for l in r.stdout.splitlines():
        m = re.match(r"#define (DRACO_ANS_\w+)\s+(.*)$", l)
        if m and m.group(1) not in defs:
            defs[m.group(1)] = m.group(2).strip()
    n = 0
    for k, v in led["macros"].items():
        if not k.startswith("DRACO_ANS_"):
            continue
        if k not in defs:
            raise AnalysisBroken("macro %s no longer defined in ans.h" % k)
        n += 1
        rep.add(Obligation("LEDGER", "macro", k, hdr, DISCHARGED if defs[k] == v else VIOLATION,
                           detail="defined as `%s` (ledger `%s`)" % (defs[k], v), trivial=True))
    return n


def check_dispatch(ctx, rep, led):
    cur = reader_tables(ctx.F)
    n = 0
    for fam, tab in led["dispatch"].items():
        if fam not in cur:
            raise AnalysisBroken("dispatch family vanished: " + fam)
        for k, v in tab.items():
            n += 1
            cv = cur[fam].get(k)
            rep.add(Obligation("LEDGER-DISPATCH", fam, "id %s" % k, "-",
                               DISCHARGED if cv == v else VIOLATION,
                               detail="reader maps wire id %s to %s (ledger: %s)" % (k, cv, v)))
        for k in cur[fam]:
            if k not in tab:
                rep.note("reader table %s has a new arm %s -> %s (not in the ledger)" % (fam, k, cur[fam][k]))
    return n
