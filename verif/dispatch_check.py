"""Evaluation of the dispatch families of rules/dispatch.json."""
import re

from .core import Obligation, DISCHARGED, VIOLATION, load_table
from .facts import strip_targs
from .substrate import AnalysisBroken
from . import dispatch as D


def _norm(t):
    return t.replace("draco::", "")


def _first_int(t, after):
    i = t.find(after)
    if i < 0:
        return None
    m = re.match(r"\s*(-?\d+)", t[i + len(after):])
    return int(m.group(1)) if m else None


def decoder_map(F, fam):
    """value -> set(normalised decoder targets), sites"""
    facs = fam.get("decoder_factories") or [fam["decoder_factory"]]
    var = fam.get("dec_var") or fam["var"]
    m, sites = {}, {}
    for fb in facs:
        F.need(fb)

        def filt(t, fam=fam):
            if fam.get("target_template_arg"):
                return fam["target_template_arg"] in t
            if fam.get("dec_target"):
                return fam["dec_target"] in t
            return True
        kinds = ("new",) if fam["kind"] == "getter_vs_factory" and not fam.get("target_template_arg") \
            else tuple(fam.get("kinds", ("new", "ctor", "call")))
        mm, ss = D.factory_map(F, fb, var, kinds=kinds, target_filter=filt)
        for v, ts in mm.items():
            for t in ts:
                tt = t
                if fam.get("target_template_arg"):
                    # the transform class is the template argument of the callee
                    mt = re.search(r"(draco::\w*%s)" % fam["target_template_arg"], t)
                    tt = mt.group(1) if mt else t
                m.setdefault(v, set()).add(_norm(tt))
                sites[(v, _norm(tt))] = ss[(v, t)]
    return m, sites


def encoder_map(F, fam):
    """value -> set(normalised encoder targets) with provenance strings."""
    out, prov = {}, {}
    kind = fam["kind"]
    if kind == "getter_vs_factory":
        classes = []
        if fam.get("encoder_base"):
            if fam["encoder_base"] not in F.classes:
                raise AnalysisBroken("dispatch anchor class missing: " + fam["encoder_base"])
            classes = D.concrete_subclasses(F, fam["encoder_base"])
            if fam.get("not_derived_from"):
                classes = [c for c in classes if not F.derives_from(c, fam["not_derived_from"])]
        else:
            for cn, c in F.classes.items():
                if fam["encoder_name_contains"] in strip_targs(cn).rsplit("::", 1)[-1] and \
                        not cn.startswith("verif_control::"):
                    classes.append(cn)
        for cn in classes:
            v = D.getter_value(F, cn, fam["getter"])
            if v is None:
                continue
            out.setdefault(v, set()).add(_norm(cn))
            prov[(v, _norm(cn))] = "%s::%s() returns %s" % (cn, fam["getter"], v)
    else:
        F.need(fam["encoder_factory"])

        def filt(t):
            return fam["enc_target"] in t if fam.get("enc_target") else True
        pc = F.__dict__.get("_param_consts")
        if pc is None:
            pc = F.__dict__["_param_consts"] = D.ParamConsts(F)
        mm, ss = D.factory_map(F, fam["encoder_factory"], fam["enc_var"],
                               kinds=tuple(fam.get("kinds", ("new", "ctor", "call"))),
                               target_filter=filt, param_consts=pc)
        for v, ts in mm.items():
            for t in ts:
                out.setdefault(v, set()).add(_norm(t))
                prov[(v, _norm(t))] = "%s constructs/dispatches it for %s == %s at %s" % (
                    fam["encoder_factory"], fam["enc_var"], v, ss[(v, t)])
    return out, prov


def check_family(F, fam, rep, rule="DISPATCH"):
    """Adds obligations: coverage + pairing (+ self-consistency)."""
    fid = fam["id"]
    n = 0
    if fam["kind"] == "getter_pair":
        for e, d in fam["pairs"]:
            ve, vd = D.getter_value(F, e, fam["getter"]), D.getter_value(F, d, fam["getter"])
            if ve is None or vd is None:
                raise AnalysisBroken("cannot evaluate %s of %s / %s" % (fam["getter"], e, d))
            st = DISCHARGED if ve == vd else VIOLATION
            rep.add(Obligation(rule, fid, "%s <-> %s" % (_norm(e), _norm(d)), F.classes[e]["loc"], st,
                               detail="%s(): writer side %s, reader side %s" % (fam["getter"], ve, vd)))
            n += 1
        return n
    dmap, dsites = decoder_map(F, fam)
    emap, eprov = encoder_map(F, fam)
    if len(dmap) < fam.get("min", 1):
        # not fatal here: a missing arm is reported as a coverage violation below
        rep.broken("dispatch family %s: decoder table has %d entries, expected >= %d"
                   % (fid, len(dmap), fam.get("min", 1)))
    if not emap:
        raise AnalysisBroken("dispatch family %s: no encoder-side ids found" % fid)
    fb = fam.get("fallback")
    for v in sorted(emap):
        for et in sorted(emap[v]):
            want = D.enc_to_dec(et)
            n += 1
            if fam["kind"] == "int_range":
                ei, di = _first_int(et, fam["enc_target"]), None
                dts = dmap.get(v, set())
                ok = bool(dts)
                for dt in dts:
                    di = _first_int(dt, fam["dec_target"])
                    ok = ok and di == v
                ok = ok and ei == v
                rep.add(Obligation(rule, fid, "id %s" % v, dsites.get((v, next(iter(dts), "")), "-"),
                                   DISCHARGED if ok else VIOLATION,
                                   detail="level %s: writer instantiates <%s>, reader <%s>" % (v, ei, di)))
                continue
            dts = dmap.get(v)
            if dts is None and fb and fb["value"] == v:
                # the reader's catch-all arm
                ok = strip_targs(want).endswith(strip_targs(_norm(fb["decoder_class"])))
                rep.add(Obligation(rule, fid, "id %s -> %s" % (v, strip_targs(et)), "-",
                                   DISCHARGED if ok else VIOLATION,
                                   detail="writer id %s (%s) is handled by the reader's catch-all arm: %s"
                                          % (v, eprov[(v, et)], fb["why"])))
                continue
            if dts is None:
                rep.add(Obligation(rule, fid, "id %s -> %s" % (v, strip_targs(et)), "-", VIOLATION,
                                   detail="writer can emit id %s (%s) but the reader's table %s has no arm "
                                          "for it" % (v, eprov[(v, et)], fam.get("decoder_factory")
                                                      or fam.get("decoder_factories"))))
                continue
            full = fam["kind"] == "factory_vs_factory"
            if full:
                ok = any(dt == want for dt in dts)
            else:
                # the writer class or one of its bases is the sibling of the
                # class the reader constructs (KeyframeAnimationEncoder is a
                # PointCloudSequentialEncoder)
                cands, cur, seen = [], "draco::" + et, set()
                while cur and cur not in seen:
                    seen.add(cur)
                    cands.append(strip_targs(D.enc_to_dec(_norm(cur))))
                    cc = F.classes.get(cur)
                    cur = next((b for b in (cc or {}).get("bases", []) if b in F.classes), None)
                ok = any(strip_targs(dt) in cands for dt in dts)
            if ok and fam.get("template_int"):
                ok = all(_first_int(dt, "<RAnsSymbolDecoder<") == v for dt in dts) and \
                    _first_int(et, "<RAnsSymbolEncoder<") == v
            dsite = dsites.get((v, next(iter(sorted(dts)))), "-")
            rep.add(Obligation(rule, fid, "id %s -> %s" % (v, strip_targs(et)), dsite,
                               DISCHARGED if ok else VIOLATION,
                               detail="writer: %s; reader constructs %s under the same id%s"
                                      % (eprov[(v, et)], sorted(dts),
                                         "" if ok else " - expected sibling %s" % want)))
    # self-consistency of reader-side classes that carry their own id getter
    if fam["kind"] == "getter_vs_factory" and not fam.get("target_template_arg"):
        for v, dts in sorted(dmap.items()):
            for dt in sorted(dts):
                cn = "draco::" + dt
                if cn in F.classes:
                    gv = D.getter_value(F, cn, fam["getter"])
                    if gv is not None:
                        n += 1
                        rep.add(Obligation(rule, fid, "reader class %s self-id" % strip_targs(dt),
                                           dsites.get((v, dt), "-"),
                                           DISCHARGED if gv == v else VIOLATION,
                                           detail="constructed under id %s, its %s() returns %s"
                                                  % (v, fam["getter"], gv)))
    return n


def reader_tables(F):
    """{family: {value: [targets]}} — the reader-side tables (for the ledger)."""
    tab = load_table("dispatch.json")
    out = {}
    for fam in tab["families"]:
        if fam["kind"] == "getter_pair":
            out[fam["id"]] = {d.replace("draco::", ""): D.getter_value(F, d, fam["getter"])
                              for _, d in fam["pairs"]}
            continue
        dmap, _ = decoder_map(F, fam)
        out[fam["id"]] = {str(v): sorted({strip_targs(t) if fam["kind"] != "factory_vs_factory" else t
                                          for t in ts}) for v, ts in sorted(dmap.items())}
    return out


def run_families(F, rep, ids=None, rule="DISPATCH"):
    tab = load_table("dispatch.json")
    n = 0
    for fam in tab["families"]:
        if ids and fam["id"] not in ids:
            continue
        n += check_family(F, fam, rep, rule)
    return n
