"""Shared driver for the TAINT/GUARD rules (C02, C03, C18)."""
from .core import Obligation, DISCHARGED, VIOLATION, ALLOWED, NOTE, load_table
from .taint import Engine, is_src
from . import sinks as S


def engine(ctx):
    if getattr(ctx, "_engine", None) is None:
        src = load_table("sources.json")
        decl = load_table("declared_counts.json")
        scope = set(ctx.reach("decode"))
        ctl = [f for f in ctx.F.fns.values() if f.name.startswith("verif_control::")
               and f.file.endswith("taint_control.cc")]
        scope |= ctx.F.reach(ctl)
        finders = [S.alloc_sinks, S.loopgrow_sinks, S.enumcast_sinks,
                   S.subscript_sinks, S.rawwin_sinks, S.faceidx_sinks, S.loopbound_sinks, S.writelen_sinks]
        ctx._engine = Engine(ctx.F, scope, src["sources"], src["remaining"],
                             decl["declared"], finders)
        ctx._engine_tables = (src, decl)
    return ctx._engine


def stream_struct_fields(eng):
    """(class, field) of plain data structs (no methods besides constructors) a field of which is assigned a
    stream-derived value somewhere in the scope."""
    cached = getattr(eng, "_stream_struct_fields", None)
    if cached is not None:
        return cached
    out = set()
    for fn in eng.scope:
        ft = eng.ft[fn.key]
        for place, labs in ft.place_labels.items():
            if place[0] != "f" or not any(is_src(l) for l in labs):
                continue
            c = eng.F.classes.get(place[1])
            if c is None:
                continue
            meths = [m for m in c.get("methods", []) if m.get("sn") not in (c["name"].rsplit("::", 1)[-1],)
                     and not m.get("sn", "").startswith(("~", "operator"))]
            if not meths:
                out.add((place[1], place[2]))
    eng._stream_struct_fields = out
    return out


def label_desc(eng, l):
    if l and l[0] == "field":
        return "%s::%s (filled from the stream elsewhere)" % (l[1], l[2])
    info = eng.label_info.get(l, {})
    return "%s read by %s at %s" % (info.get("var") or "value",
                                    info.get("callee", "?"), info.get("site", "?"))


def run_rule(ctx, rep, rule, finder, allow=None):
    """Turn the sinks of one finder into obligations (de-duplicated across
    template instantiations by function + site + construct)."""
    eng = engine(ctx)
    allow = allow or {}
    merged = {}
    for fn in eng.scope:
        ft = eng.ft[fn.key]
        for sk in finder(eng, ft, fn):
            real = sorted(l for l in sk.labels if is_src(l))
            if not real and rule == "SUBSCRIPT":
                # a stream value parked in a plain event struct (TopologySplitEventData::split_symbol_id) and
                # read back in another function is still a stream value when it is used as an index
                real = sorted(l for l in sk.labels if l[0] == "field" and (l[1], l[2]) in stream_struct_fields(eng))
            if not real:
                continue
            unb, why = [], []
            if sk.pre:
                why.append(sk.pre)
            else:
                for l in real:
                    w = ft.bounded(l, sk.block, sk.kinds)
                    if w:
                        why.append("%s: %s" % (eng.label_info.get(l, {}).get("var") or "value", w))
                    else:
                        unb.append(l)
            short = sk.what.split(" -> ")[0]
            vars_ = sorted({eng.label_info.get(l, {}).get("var") or "value" for l in (unb or real)})
            construct = "%s <- %s" % (short, ",".join(vars_))
            key = (fn.base, sk.site, construct)
            m = merged.setdefault(key, {"fn": fn, "sk": sk, "unb": [], "why": [], "n": 0,
                                        "src": set()})
            m["n"] += 1
            m["unb"] += [l for l in unb if l not in m["unb"]]
            for w in why:
                if w not in m["why"]:
                    m["why"].append(w)
            for l in real:
                m["src"].add(label_desc(eng, l))
    out = []
    for (fbase, site, construct), m in sorted(merged.items()):
        fn, sk = m["fn"], m["sk"]
        is_ctl = fn.name.startswith("verif_control::")
        extra = {"sources": sorted(m["src"])[:6], "instances": m["n"], "sink": sk.what}
        if m["unb"]:
            akey = "%s|%s" % (fbase, construct)
            if akey in allow:
                o = Obligation(rule, fbase, construct, site, ALLOWED,
                               detail="unbounded stream value reaches " + sk.what,
                               by=allow[akey], control=is_ctl, extra=extra)
            else:
                o = Obligation(rule, fbase, construct, site, VIOLATION,
                               detail="stream-derived %s reaches `%s` with no dominating guard of kind %s"
                               % (", ".join(sorted({label_desc(eng, l) for l in m["unb"]})[:3]), sk.what,
                                  "/".join(sk.kinds)),
                               control=is_ctl, extra=extra)
        else:
            o = Obligation(rule, fbase, construct, site, DISCHARGED,
                           detail=sk.what, by="; ".join(m["why"][:4]), control=is_ctl, extra=extra)
        out.append(rep.add(o))
    return out


def check_controls(rep, rule, obls, expect_fire, expect_silent):
    by_fn = {}
    for o in obls:
        if o.control:
            by_fn.setdefault(o.function, []).append(o)
    for name in expect_fire:
        os_ = by_fn.get("verif_control::" + name, [])
        rep.control(rule, name, any(o.status == VIOLATION for o in os_),
                    "must be reported")
    for name in expect_silent:
        os_ = by_fn.get("verif_control::" + name, [])
        ok = bool(os_) and all(o.status == DISCHARGED for o in os_)
        rep.control(rule, name + " (negative)", ok,
                    "guarded/equivalent form must be discharged, not reported")
