"""C05 — existing bitstreams keep decoding (partial).

LEDGER: format constants equal the frozen ledger (values).  LEDGER-DISPATCH:
each wire id maps to the same reader class as in the ledger.  VERSIONCHK: in
PointCloudDecoder::Decode the payload is reachable for every released version
and unreachable for every unknown newer (or pre-1.0) version - decided by
evaluating the function's CFG over the finite set of version orderings.
GATES: every bitstream-version gate compares with a released version that is
not above the current one, and no gate lives in encoder-only code.
"""
from ..core import Obligation, DISCHARGED, VIOLATION, NOTE, load_table
from ..facts import walk, strip_targs
from ..substrate import AnalysisBroken
from ..evalcfg import explore, ev
from ..primbound import _atoms, _const
from .. import ledger
from ..dispatch_check import run_families

LEVEL = "other"


def versionchk(ctx, rep, led, tab):
    F = ctx.F
    from .. import evalcfg
    evalcfg.RESOLVER["F"] = F       # version checks hoisted into a Status helper are evaluated through the call
    fns = F.need(tab["version_check_fn"])
    payload = set(tab["payload_calls"])
    n = 0
    for fn in fns:
        pay_blocks = set()
        for nd, b, rk, e in fn.calls():
            if strip_targs(nd.get("fn") or "") in payload:
                pay_blocks.add(b)
        if len(pay_blocks) < tab["payload_floor"]:
            raise AnalysisBroken("payload calls of %s not found (%d)" % (fn.name, len(pay_blocks)))
        unknown_ret = set()
        for b, e in fn.returns():
            for nd in walk(e.get("e")):
                if nd.get("k") == "lit" and (nd.get("n") or "").endswith("UNKNOWN_VERSION"):
                    unknown_ret.add(b.id)
        for g, (gname, kmaj, kmin) in enumerate(tab["geometry_constants"]):
            maxM, maxm = led["constants"][kmaj], led["constants"][kmin]
            for M in range(0, maxM + 3):
                for m in range(0, max(maxm, 3) + 3):
                    supported = M >= 1 and (M < maxM or (M == maxM and m <= maxm))
                    hit = {"pay": False, "unk": False}

                    def on_block(b, env):
                        if b.id in pay_blocks:
                            hit["pay"] = True
                            return False
                        if b.id in unknown_ret:
                            hit["unk"] = True
                            return False
                        for x in b.ev:      # `return _local_status;` of a helper that answered UNKNOWN_VERSION
                            if x["k"] == "ret":
                                t = x.get("e")
                                while isinstance(t, dict) and t.get("k") in ("copy", "icast"):
                                    t = t.get("e")
                                if isinstance(t, dict) and t.get("k") == "var" and \
                                        env.get(("st", t.get("d"))) == "UNKNOWN_VERSION":
                                    hit["unk"] = True
                                    return False
                        return True
                    env0 = {("f", "version_major"): M, ("f", "version_minor"): m,
                            ("f", "encoder_type"): g, ("f", "flags"): 0}
                    explore(fn, env0, on_block)
                    n += 1
                    ok = hit["pay"] if supported else (not hit["pay"] and hit["unk"])
                    if not ok or (M, m) in ((maxM, maxm), (maxM, maxm + 1), (maxM + 1, 0), (1, 1)):
                        rep.add(Obligation(
                            "VERSIONCHK", fn.base, "%s stream version %d.%d" % (gname, M, m), fn.loc,
                            DISCHARGED if ok else VIOLATION,
                            detail=("released version: payload parsing is reachable" if supported else
                                    "unknown version: no path reaches payload parsing, rejected with UNKNOWN_VERSION")
                            if ok else
                            ("released version %d.%d is rejected before the payload" % (M, m) if supported else
                             "unknown version %d.%d reaches payload parsing (payload reachable=%s, "
                             "UNKNOWN_VERSION return reachable=%s)" % (M, m, hit["pay"], hit["unk"]))))
    rep.extra_cov["versionchk_states"] = n
    return n


def gates(ctx, rep, led, tab):
    F = ctx.F
    released = {(a << 8) | b for a, b in led["released_versions"]}
    cur_max = max(led["constants"]["draco::kDracoMeshBitstreamVersionMajor"] << 8 |
                  led["constants"]["draco::kDracoMeshBitstreamVersionMinor"],
                  led["constants"]["draco::kDracoPointCloudBitstreamVersionMajor"] << 8 |
                  led["constants"]["draco::kDracoPointCloudBitstreamVersionMinor"])
    dec = ctx.reach("decode")
    enc = ctx.reach("encode")
    n = 0
    seen = set()
    per_fn = {}
    for fn in F.fns.values():
        if fn.name.startswith("verif_control::"):
            continue
        for b in fn.blocks.values():
            if b.cond is None:
                continue
            for l, op, r in _atoms(b.cond, True):
                for side, other in ((l, r), (r, l)):
                    if not isinstance(side, dict):
                        continue
                    is_ver = any(s.get("k") == "call" and strip_targs(s.get("fn") or "").endswith("::bitstream_version")
                                 for s in walk(side))
                    cv = _const(other)
                    if not is_ver or cv is None:
                        continue
                    key = (fn.base, fn.site(b.tloc or ""), cv)
                    if key in seen:
                        continue
                    seen.add(key)
                    n += 1
                    per_fn.setdefault(fn.base, set()).add(cv)
                    # 0 is DecoderBuffer's "version not set" sentinel, tested with ==
                    ok_v = (cv in released and cv <= cur_max) or (cv == 0 and op in ("==", "!="))
                    ok_side = fn.key in dec or fn.key not in enc
                    st = DISCHARGED if (ok_v and ok_side) else VIOLATION
                    det = "gate against version %d.%d" % (cv >> 8, cv & 255)
                    if not ok_v:
                        det += ": not a released version <= current (%d.%d)" % (cur_max >> 8, cur_max & 255)
                    if not ok_side:
                        det += ": version gate in encoder-only code"
                    rep.add(Obligation("GATES", fn.base, "`%s`" % b.condsrc[:70], key[1], st, detail=det,
                                       trivial=True))
    rep.extra_cov["gate_thresholds_per_function"] = {k: sorted("%d.%d" % (v >> 8, v & 255) for v in vs)
                                                     for k, vs in sorted(per_fn.items())}
    rep.floor("version-gate atoms", n, tab["gates_floor"])
    # backwards compatibility must be compiled in
    import os
    feat = os.path.join(ctx.sub.cdir, "gen", "draco", "draco_features.h")
    txt = open(feat).read() if os.path.exists(feat) else ""
    ok = "#define DRACO_BACKWARDS_COMPATIBILITY_SUPPORTED" in txt
    rep.add(Obligation("GATES", "draco_features.h", "DRACO_BACKWARDS_COMPATIBILITY_SUPPORTED", feat,
                       DISCHARGED if ok else VIOLATION,
                       detail="legacy decoding paths are compiled in" if ok else
                       "backwards compatibility is compiled out: pre-current streams are rejected"))
    return n


def run(ctx, rep):
    led = load_table("format_ledger.json")
    tab = load_table("c05.json")
    rep.rules_text.append(
        "LEDGER: wire enumerators, version constants, rANS precision for bit "
        "lengths 1..18 and the tag coder, rANS/rABS bases, Edgebreaker symbol "
        "tables, flag masks and the header layout equal the frozen ledger "
        "(E1 evaluated constants + generated static_assert witness TU); "
        "LEDGER-DISPATCH: wire id -> reader class as frozen; VERSIONCHK: CFG "
        "evaluation of PointCloudDecoder::Decode over all version orderings; "
        "GATES: version gates compare with released versions only")
    rep.not_decided += ["that any given stream decodes to the same geometry (value-level)",
                        "symmetric algorithmic changes applied to both coder sides (e.g. a different "
                        "prediction formula) that leave every constant and table unchanged"]
    rep.trusted_base += ["clang 14 constant evaluation", "dfacts", "rules/format_ledger.json (frozen reference)"]
    n1 = ledger.check_facts(ctx, rep, led)
    src, ids = ledger.witness_source(led)
    n2 = ledger.run_witness(ctx, rep, src, ids)
    n3 = ledger.check_ans_macros(ctx, rep, led)
    n4 = ledger.check_dispatch(ctx, rep, led)
    rep.floor("ledger items", n1 + n2 + n3 + n4, tab["ledger_floor"])
    # positive control for E3: a witness with a wrong value must fail
    crep_src, cids = ledger.witness_source(led, extra=[("control", "draco::ComputeRAnsPrecisionFromUniqueSymbolsBitLength(1) == 13")])
    from ..core import Report
    crep = Report("ctl", "quick")
    ledger.run_witness(ctx, crep, crep_src, cids)
    rep.control("LEDGER", "wrong-value witness", any(o.construct == "control" and o.status == VIOLATION
                                                     for o in crep.obls), "static_assert with a wrong value must fail")
    versionchk(ctx, rep, led, tab)
    gates(ctx, rep, led, tab)
    # derived format decisions (index widths) of the reader against the ledger
    from .. import selectors as SEL
    stab = load_table("selectors.json")
    for p in stab["pairs"]:
        cur = (led["constants"][p["version_constant"][0]] << 8) | led["constants"][p["version_constant"][1]]
        r = SEL.selector_samples(ctx.F, p["reader"], p["quantity"], cur, True)
        want = led.get("selector_samples", {}).get(p["id"])
        if want is None:
            rep.broken("ledger has no selector samples for " + p["id"])
            continue
        if not (len({tuple(v) for v in r.values()}) > 1 and all(len(v) <= 2 for v in r.values())):
            rep.note("selector %s: the reader's decision could not be evaluated on this tree (not compared)" % p["id"])
            continue
        for q, toks in sorted(want.items(), key=lambda kv: int(kv[0])):
            got = r.get(int(q))
            rep.add(Obligation("LEDGER-SELECTORS", p["id"], "%s = %s" % (p["quantity"], q), "-",
                               DISCHARGED if got == toks else VIOLATION,
                               detail="reader takes %s for %s = %s (ledger %s)" % (got, p["quantity"], q, toks)))
    # frozen reader records, one per released bitstream version
    from ..wiresig import run_wiresig
    rep.rules_text.append(
        "LEDGER-WIRESIG: for every reader of rules/wiresig.json and every released bitstream version "
        "(1.1 .. 2.3) the reader's record - the set of type-directed token sequences along its success paths "
        "with the version gates evaluated for that version - equals the frozen one (a change applied to "
        "writer and reader alike still changes the reader's record)")
    n = run_wiresig(ctx, rep, "LEDGER-WIRESIG", None, ledger=True)
    rep.floor("LEDGER-WIRESIG reader records (pairs x versions)", n, tab.get("wiresig_floor", 250))

    from ..predsig import run_predsig_ledger
    rep.rules_text.append("LEDGER-PREDSIG: the set of (operation, width[, constant]) and shared helpers that produce the predicted value of every prediction-scheme decoder (helpers of the prediction_schemes directory inlined) equals the frozen set of rules/predsig_ledger.json: the prediction is part of what a stored stream means")
    n_ps = run_predsig_ledger(ctx, rep)
    rep.floor("prediction-scheme decoders with a frozen arithmetic signature", n_ps, 5)
    from ..rejects import run_rejects
    rep.rules_text.append("REJECT-LEDGER: every constant-bound rejection of a stream-derived field in the readers (a branch outcome that only reaches failing returns on `field op constant`) is listed in the frozen ledger rules/rejects.json; a new one narrows what the reader accepts")
    n_rej = run_rejects(ctx, rep, "REJECT-LEDGER", None)
    rep.floor("constant-bound rejections inspected", n_rej, 30)
