"""C03 — a successfully decoded geometry is structurally valid (partial).

FACEIDX: every stream-derived value stored as a face index is compared with a
count (G2) before it is stored.  MAPENTRY: every explicit point->value map
write in the decoder layer has both arguments bounded above on the path to the
write, or copies a sibling attribute's entry for the loop's own index.
"""
from ..core import Obligation, DISCHARGED, VIOLATION, load_table
from ..facts import walk, strip_targs
from ..taint import _tree_eq, FLIP, is_src
from ..taintcheck import engine, run_rule, check_controls
from ..cfgutil import dominating_edges, success_returns
from .. import sinks as S
from .C09 import root_var, same_obj

LEVEL = "other"


def _strip(t):
    while isinstance(t, dict) and t.get("k") in ("copy", "icast", "cast"):
        t = t.get("e")
    if isinstance(t, dict) and t.get("k") == "ctor" and len(t.get("args", [])) == 1:
        return _strip(t["args"][0])
    return t


def _refers(side, arg):
    """Does the comparison side talk about the same value as arg?"""
    a, s = _strip(arg), _strip(side)
    if _tree_eq(a, s):
        return True
    ra, rs = root_var(a), root_var(s)
    if ra is not None and rs is not None and ra.get("k") == "var" and same_obj(ra, rs):
        # side is x or x.value(); arg is x (possibly wrapped)
        return True
    return False


def upper_bound_for(ft, fn, block, arg):
    a = _strip(arg)
    if isinstance(a, dict) and a.get("k") == "call" and \
            strip_targs(a.get("fn") or "").endswith("PointAttribute::mapped_index"):
        return "entry copied from a sibling attribute's map (mapped_index)"
    if isinstance(a, dict) and "v" in a and a.get("k") == "lit":
        return "constant %s" % a["v"]
    for cb, oc, cond in dominating_edges(fn, block):
        if isinstance(oc, tuple):
            continue
        for l, op, r in ft.atoms(cond, oc):
            for side, other, o in ((l, r, op), (r, l, FLIP[op])):
                if side is None or other is None:
                    continue
                if o in ("<", "<=") and _refers(side, arg) and not _refers(other, arg):
                    return "`%s` (%s edge) at %s" % (cb.condsrc, "true" if oc else "false",
                                                     fn.site(cb.tloc or ""))
    return None


def run(ctx, rep):
    tab = load_table("c03.json")
    eng = engine(ctx)
    rep.rules_text.append(
        "FACEIDX: a stream-derived value stored into the face object handed to "
        "Mesh::AddFace/SetFace must be dominated, at the store, by a comparison "
        "that bounds it above by a count (G2). MAPENTRY: both arguments of every "
        "PointAttribute::SetPointMapEntry in decoder-layer code are bounded above "
        "by a dominating comparison, or the entry is read from a sibling "
        "attribute's map")
    rep.not_decided += [
        "that attribute buffers are large enough for the declared counts (needs the relation between point_ids_.size() and num_points across functions)",
        "faces built by the Edgebreaker decoder from vertex ids it generates itself (no stream label: covered only by its own corner-table invariants)"]
    rep.trusted_base += ["clang 14 AST/CFG", "dfacts", "rules/sources.json"]
    f = run_rule(ctx, rep, "FACEIDX", S.faceidx_sinks, tab.get("allow", {}))
    check_controls(rep, "FACEIDX", f, ["face_bad", "face_wrap_bad"], ["face_ok"])
    rep.floor("FACEIDX stores in Reach(decode)", len([o for o in f if not o.control]),
              tab["faceidx_floor"])

    # MAPENTRY
    n_real = 0
    fired = {"mapentry_bad": False}
    ok_ctl = {"mapentry_ok": None}
    seen = set()
    for fn in eng.scope:
        is_ctl = fn.name.startswith("verif_control::")
        if not is_ctl and "/draco/compression/" not in fn.file:
            continue
        ft = eng.ft[fn.key]
        for n, b, rk, ev in fn.calls():
            if strip_targs(n.get("fn") or "") != "draco::PointAttribute::SetPointMapEntry":
                continue
            site = fn.site(n.get("loc", ""))
            if (fn.base, site) in seen:
                continue
            seen.add((fn.base, site))
            args = n.get("args", [])
            whys, missing = [], []
            for i, a in enumerate(args[:2]):
                w = upper_bound_for(ft, fn, b, a)
                if w:
                    whys.append("arg%d: %s" % (i, w))
                else:
                    missing.append(i)
            st = VIOLATION if missing else DISCHARGED
            rep.add(Obligation("MAPENTRY", fn.base, "SetPointMapEntry", site, st,
                               detail="argument(s) %s of SetPointMapEntry have no dominating upper bound"
                               % missing if missing else "both arguments bounded",
                               by="; ".join(whys), control=is_ctl))
            if is_ctl:
                short = fn.name.split("::")[-1]
                if short in fired:
                    fired[short] = st == VIOLATION
                if short in ok_ctl:
                    ok_ctl[short] = st == DISCHARGED
            else:
                n_real += 1
    rep.control("MAPENTRY", "mapentry_bad", fired["mapentry_bad"], "must be reported")
    rep.control("MAPENTRY", "mapentry_ok (negative)", bool(ok_ctl["mapentry_ok"]),
                "guarded form must be discharged")
    rep.floor("SetPointMapEntry sites in decoder-layer code", n_real, tab["mapentry_floor"])


    claimonce(ctx, rep, eng, tab)
    from .C10 import skipmap
    skipmap(ctx, rep)
    identity_size(ctx, rep, eng)


def _deref_targets(fn, lv):
    """`*p` with p a local pointer: the fields p may point to (&field initialisers / assignments)."""
    e = lv.get("e")
    while isinstance(e, dict) and e.get("k") in ("icast", "copy"):
        e = e.get("e")
    if not (isinstance(e, dict) and e.get("k") == "var" and "d" in e):
        return []
    out = []

    def addr_fields(t):
        for n in walk(t):
            if n.get("k") == "un" and n.get("op") == "&":
                x = n.get("e")
                while isinstance(x, dict) and x.get("k") in ("icast", "copy", "paren"):
                    x = x.get("e")
                if isinstance(x, dict) and x.get("k") == "field":
                    out.append(x)
    for b, ev in fn.events():
        if ev["k"] == "decl" and (ev.get("var") or {}).get("d") == e["d"] and isinstance(ev.get("e"), dict):
            addr_fields(ev["e"])
    for n, b, rk, ev in fn.nodes():
        if n.get("k") == "bin" and n.get("op") == "=":
            l = n.get("l")
            if isinstance(l, dict) and l.get("k") == "var" and l.get("d") == e["d"]:
                addr_fields(n.get("r"))
    return out


def claimonce(ctx, rep, eng, tab):
    """CLAIMONCE: a write-once ownership field (table) is stored only on the
    'unclaimed' edge of a test of that very field, and the 'claimed' edge of
    the test cannot reach a success return."""
    rep.rules_text.append(
        "CLAIMONCE: every store of a non-negative value into a write-once ownership field of the "
        "Edgebreaker decoder (rules/c03.json claim_fields) is dominated by the edge of a test of the same "
        "lvalue on which the field is still negative, and the other edge of that test reaches no success "
        "return (a second attributes decoder on the same connectivity data is rejected)")
    fields = {(c["cls"], c["field"]) for c in tab["claim_fields"]}

    def is_claim_field(t):
        return isinstance(t, dict) and t.get("k") == "field" and \
            (strip_targs(t.get("cls") or ""), t.get("n")) in fields

    n_real, seen, ctl = 0, set(), {}
    for fn in eng.scope:
        is_ctl = fn.name.startswith("verif_control::")
        ft = eng.ft[fn.key]
        for n, b, rk, ev in fn.nodes():
            if n.get("k") != "bin" or n.get("op") != "=":
                continue
            lv = n.get("l")
            while isinstance(lv, dict) and lv.get("k") in ("icast", "copy"):
                lv = lv.get("e")
            if is_claim_field(lv):
                what = lv["n"]
            elif isinstance(lv, dict) and lv.get("k") == "un" and lv.get("op") == "*" and \
                    any(is_claim_field(x) for x in _deref_targets(fn, lv)):
                what = "*" + (lv.get("e") or {}).get("n", "p") + " -> " + \
                    "/".join(sorted({x["n"] for x in _deref_targets(fn, lv) if is_claim_field(x)}))
            else:
                continue
            c = ft.const_of(n.get("r"))
            if c is not None and c < 0:
                continue            # reset to the sentinel
            site = fn.site(n.get("loc", "") or ev.get("loc", ""))
            if (fn.base, site) in seen:
                continue
            seen.add((fn.base, site))
            ok_by, problem = None, "no dominating test of the field"
            for cb, oc, cond in dominating_edges(fn, b):
                if isinstance(oc, tuple):
                    continue
                for l, op, r in ft.atoms(cond, oc):
                    for side, other, o in ((l, r, op), (r, l, FLIP[op])):
                        if side is None or other is None or not _tree_eq(_strip(side), lv):
                            continue
                        k = ft.const_of(other)
                        if k is None:
                            continue
                        neg = (o == "<" and k <= 0) or (o == "<=" and k <= -1) or (o == "==" and k < 0)
                        if not neg:
                            problem = "dominating test `%s` does not establish that the field is still negative" % cb.condsrc
                            continue
                        # the other ('claimed') edge must not reach a success return
                        tgt = cb.succ[1] if oc else cb.succ[0]
                        reach = fn.reachable(start=tgt) if tgt is not None else set()
                        succ_ret = [rb for rb, rev, cl in success_returns(fn) if rb.id in reach]
                        if succ_ret:
                            problem = ("test `%s`: the edge on which the data is already claimed still reaches a "
                                       "success return at %s" % (cb.condsrc, fn.site(succ_ret[0].ev[-1].get("loc", ""))))
                            continue
                        ok_by = "`%s` (%s edge) at %s; claimed edge only fails" % (
                            cb.condsrc, "true" if oc else "false", fn.site(cb.tloc or ""))
            st = DISCHARGED if ok_by else VIOLATION
            of = [strip_targs(lv.get("cls") or ""), lv.get("n")] if is_claim_field(lv) else \
                next(([strip_targs(x.get("cls") or ""), x.get("n")] for x in _deref_targets(fn, lv) if is_claim_field(x)), None)
            rep.add(Obligation("CLAIMONCE", fn.base, "store to " + what, site, st,
                               detail="" if ok_by else problem, by=ok_by or "", control=is_ctl,
                               extra={"owner_field": of, "fnkey": fn.key}))
            if is_ctl:
                ctl[fn.name.split("::")[-1]] = st
            else:
                n_real += 1
    # --- data side: connectivity data handed to a newly registered attributes decoder needs a claim ---
    data = {(c["data_cls"], c["data"]): (c["owner_cls"], c["owner"]) for c in tab["claim_data"]}
    registrars = set(tab["claim_registrar"])
    valid_claims = {}      # fn.key -> set of owner fields with a discharged store
    for o in rep.obls:
        if o.rule == "CLAIMONCE" and o.status == DISCHARGED and o.extra.get("owner_field"):
            valid_claims.setdefault(o.extra["fnkey"], set()).add(tuple(o.extra["owner_field"]))
    n_data, seen_d = 0, set()
    for fn in eng.scope:
        is_ctl = fn.name.startswith("verif_control::")
        if not any(strip_targs(n.get("fn") or "") in registrars for n, b, rk, ev in fn.calls()):
            continue
        for blk, rk, tree, ev in fn.roots():
            if tree is None:
                continue
            for n in walk(tree):
                if n.get("k") != "un" or n.get("op") != "&":
                    continue
                x = _strip(n.get("e"))
                if not (isinstance(x, dict) and x.get("k") == "field"):
                    continue
                key = (strip_targs(x.get("cls") or ""), x.get("n"))
                if key not in data:
                    continue
                site = fn.site(ev.get("loc", ""))
                if (fn.base, key) in seen_d:
                    continue
                seen_d.add((fn.base, key))
                owner = data[key]
                ok = owner in valid_claims.get(fn.key, set()) or \
                    any(owner in v for k2, v in valid_claims.items()
                        if ctx.F.fns.get(k2) is not None and ctx.F.fns[k2].base == fn.base)
                rep.add(Obligation("CLAIMONCE", fn.base, "&%s handed to a new attributes decoder" % key[1], site,
                                   DISCHARGED if ok else VIOLATION,
                                   detail="ownership recorded in %s behind a claim-once test" % owner[1] if ok else
                                   "the function registers an attributes decoder on %s but contains no claim-once "
                                   "store to its ownership field %s::%s: two decoders can share the data" % (
                                       key[1], owner[0], owner[1]), control=is_ctl))
                if is_ctl:
                    ctl[fn.name.split("::")[-1]] = VIOLATION if not ok else ctl.get(fn.name.split("::")[-1], DISCHARGED)
                else:
                    n_data += 1
    rep.floor("connectivity-data objects handed to attributes decoders", n_data, tab["claim_data_floor"])
    for name in ("claim_weak_bad", "claim_missing_bad", "claim_data_unowned_bad"):
        rep.control("CLAIMONCE", name, ctl.get(name) == VIOLATION, "must be reported")
    rep.control("CLAIMONCE", "claim_data_ok (negative)", ctl.get("claim_data_ok") == DISCHARGED, "must be discharged")
    for name in ("claim_ok", "claim_ptr_ok"):
        rep.control("CLAIMONCE", name + " (negative)", ctl.get(name) == DISCHARGED, "must be discharged")
    rep.floor("stores to write-once ownership fields in Reach(decode)", n_real, 1)


def identity_size(ctx, rep, eng):
    """IDENTITY-SIZE: an attribute that is given the identity point->value mapping holds one value per point.
    Where a decoder function both sizes an attribute (`Reset(n)`) and calls `SetIdentityMapping()` on it, n is
    the geometry's point count: if n was read from the stream in that function it must be pinned by a
    dominating equality test against `num_points()` (a rejection on `n != ..num_points()`); otherwise the
    decoder returns points that map to values the attribute does not have."""
    from ..cfgutil import dominating_edges
    F = ctx.F
    rep.rules_text.append(
        "IDENTITY-SIZE: in decoder-layer functions an attribute that receives SetIdentityMapping() and is sized by "
        "Reset(n) in the same function has n == the point count: a stream value read there must be equality-tested "
        "against num_points() before the Reset")
    n_real, fired = 0, False

    def obj_key(t):
        t = _strip(t)
        while isinstance(t, dict) and t.get("k") in ("un", "icast", "cast", "paren"):
            t = _strip(t.get("e"))
        if isinstance(t, dict) and t.get("k") == "call" and strip_targs(t.get("fn") or "").endswith(("::get", "operator->", "operator*")):
            return obj_key(t.get("obj"))
        if isinstance(t, dict) and t.get("k") == "var" and "d" in t:
            return ("v", t["d"])
        return None
    for fn in eng.scope:
        is_ctl = fn.name.startswith("verif_control::idsize_")
        if not is_ctl and "/draco/compression/" not in fn.file:
            continue
        ft = eng.ft[fn.key]
        ident = {}
        resets = []
        for n, b, rk, ev in fn.calls():
            short = strip_targs(n.get("fn") or "").rsplit("::", 1)[-1]
            if short == "SetIdentityMapping" and n.get("obj") is not None:
                k = obj_key(n["obj"])
                if k:
                    ident[k] = n
            elif short == "Reset" and n.get("obj") is not None and n.get("args") and \
                    "PointAttribute" in (n.get("fn") or ""):
                k = obj_key(n["obj"])
                if k:
                    resets.append((k, n, b))
        for k, n, b in resets:
            if k not in ident:
                continue
            arg = n["args"][0]
            labs = [l for l in ft.labels(arg, b) if is_src(l)]
            if not labs:
                n_real += 0 if is_ctl else 1
                rep.add(Obligation("IDENTITY-SIZE", fn.base, "Reset + identity mapping", fn.site(n.get("loc", "")),
                                   DISCHARGED, control=is_ctl, trivial=True,
                                   detail="the size is not read from the stream in this function (the geometry's point "
                                          "count or a caller's value)"))
                continue
            pinned = False
            for cb, oc, cond in dominating_edges(fn, b):
                if isinstance(oc, tuple):
                    continue
                for l, op, r in ft.atoms(cond, oc):
                    if op != "==":
                        continue
                    for side, other in ((l, r), (r, l)):
                        if side is None or other is None:
                            continue
                        if set(labs) & set(ft.labels(side, cb.id)) and any(
                                x.get("k") == "call" and strip_targs(x.get("fn") or "").endswith("::num_points")
                                for x in walk(other)):
                            pinned = True
            n_real += 0 if is_ctl else 1
            fired |= is_ctl and not pinned
            rep.add(Obligation("IDENTITY-SIZE", fn.base, "Reset + identity mapping", fn.site(n.get("loc", "")),
                               DISCHARGED if pinned else VIOLATION, control=is_ctl,
                               detail="the stream's count is tested equal to num_points() before it sizes the attribute"
                               if pinned else
                               "the attribute gets the identity point->value mapping but is sized by a count read from "
                               "the stream here that is never compared with the geometry's num_points(): with a "
                               "smaller count, points map to values that do not exist"))
    rep.floor("attributes sized and identity-mapped in one decoder function", n_real, 2)
    rep.control("IDENTITY-SIZE", "idsize_bad", fired, "an identity-mapped attribute sized by an unchecked stream count must be reported")
