"""C03 — a successfully decoded geometry is structurally valid (partial).

FACEIDX: every stream-derived value stored as a face index is compared with a
count (G2) before it is stored.  MAPENTRY: every explicit point->value map
write in the decoder layer has both arguments bounded above on the path to the
write, or copies a sibling attribute's entry for the loop's own index.
"""
from ..core import Obligation, DISCHARGED, VIOLATION, load_table
from ..facts import walk, strip_targs
from ..taint import _tree_eq, FLIP
from ..taintcheck import engine, run_rule, check_controls
from ..cfgutil import dominating_edges
from .. import sinks as S
from .C09 import root_var, same_obj

LEVEL = "other"


def _strip(t):
    while isinstance(t, dict) and t.get("k") in ("copy", "icast", "cast"):
        t = t.get("e")
    if isinstance(t, dict) and t.get("k") == "ctor" and len(t.get("args", [])) == 1:
        return _strip(t["args"][0])
    return t


def _refers(side, arg):
    """Does the comparison side talk about the same value as arg?"""
    a, s = _strip(arg), _strip(side)
    if _tree_eq(a, s):
        return True
    ra, rs = root_var(a), root_var(s)
    if ra is not None and rs is not None and ra.get("k") == "var" and same_obj(ra, rs):
        # side is x or x.value(); arg is x (possibly wrapped)
        return True
    return False


def upper_bound_for(ft, fn, block, arg):
    a = _strip(arg)
    if isinstance(a, dict) and a.get("k") == "call" and \
            strip_targs(a.get("fn") or "").endswith("PointAttribute::mapped_index"):
        return "entry copied from a sibling attribute's map (mapped_index)"
    if isinstance(a, dict) and "v" in a and a.get("k") == "lit":
        return "constant %s" % a["v"]
    for cb, oc, cond in dominating_edges(fn, block):
        if isinstance(oc, tuple):
            continue
        for l, op, r in ft.atoms(cond, oc):
            for side, other, o in ((l, r, op), (r, l, FLIP[op])):
                if side is None or other is None:
                    continue
                if o in ("<", "<=") and _refers(side, arg) and not _refers(other, arg):
                    return "`%s` (%s edge) at %s" % (cb.condsrc, "true" if oc else "false",
                                                     fn.site(cb.tloc or ""))
    return None


def run(ctx, rep):
    tab = load_table("c03.json")
    eng = engine(ctx)
    rep.rules_text.append(
        "FACEIDX: a stream-derived value stored into the face object handed to "
        "Mesh::AddFace/SetFace must be dominated, at the store, by a comparison "
        "that bounds it above by a count (G2). MAPENTRY: both arguments of every "
        "PointAttribute::SetPointMapEntry in decoder-layer code are bounded above "
        "by a dominating comparison, or the entry is read from a sibling "
        "attribute's map")
    rep.not_decided += [
        "that attribute buffers are large enough for the declared counts (needs the relation between point_ids_.size() and num_points across functions)",
        "faces built by the Edgebreaker decoder from vertex ids it generates itself (no stream label: covered only by its own corner-table invariants)"]
    rep.trusted_base += ["clang 14 AST/CFG", "dfacts", "rules/sources.json"]
    f = run_rule(ctx, rep, "FACEIDX", S.faceidx_sinks, tab.get("allow", {}))
    check_controls(rep, "FACEIDX", f, ["face_bad"], ["face_ok"])
    rep.floor("FACEIDX stores in Reach(decode)", len([o for o in f if not o.control]),
              tab["faceidx_floor"])

    # MAPENTRY
    n_real = 0
    fired = {"mapentry_bad": False}
    ok_ctl = {"mapentry_ok": None}
    seen = set()
    for fn in eng.scope:
        is_ctl = fn.name.startswith("verif_control::")
        if not is_ctl and "/draco/compression/" not in fn.file:
            continue
        ft = eng.ft[fn.key]
        for n, b, rk, ev in fn.calls():
            if strip_targs(n.get("fn") or "") != "draco::PointAttribute::SetPointMapEntry":
                continue
            site = fn.site(n.get("loc", ""))
            if (fn.base, site) in seen:
                continue
            seen.add((fn.base, site))
            args = n.get("args", [])
            whys, missing = [], []
            for i, a in enumerate(args[:2]):
                w = upper_bound_for(ft, fn, b, a)
                if w:
                    whys.append("arg%d: %s" % (i, w))
                else:
                    missing.append(i)
            st = VIOLATION if missing else DISCHARGED
            rep.add(Obligation("MAPENTRY", fn.base, "SetPointMapEntry", site, st,
                               detail="argument(s) %s of SetPointMapEntry have no dominating upper bound"
                               % missing if missing else "both arguments bounded",
                               by="; ".join(whys), control=is_ctl))
            if is_ctl:
                short = fn.name.split("::")[-1]
                if short in fired:
                    fired[short] = st == VIOLATION
                if short in ok_ctl:
                    ok_ctl[short] = st == DISCHARGED
            else:
                n_real += 1
    rep.control("MAPENTRY", "mapentry_bad", fired["mapentry_bad"], "must be reported")
    rep.control("MAPENTRY", "mapentry_ok (negative)", bool(ok_ctl["mapentry_ok"]),
                "guarded form must be discharged")
    rep.floor("SetPointMapEntry sites in decoder-layer code", n_real, tab["mapentry_floor"])
