"""C10 — skipping the attribute transform (partial).

SIBLING-SKIP: both implementations of the attribute-transform stage honour the
skip option identically (read the key per attribute type; on the skip path copy
the portable attribute out and run no inverse transform; transform data is
attached before the copy; nobody else reads the key).  PORTABLE-ID: every
decoder-side creator of a portable attribute gives it the original's unique id
before it is published.
"""
from ..core import Obligation, DISCHARGED, VIOLATION, load_table
from ..facts import walk, strip_targs
from ..substrate import AnalysisBroken
from ..cfgutil import must_pass, blocks_calling, call_base, _strip_not, blocks_calling_deep, reaches_call
from .C09 import root_var, same_obj
from ..cursor import run_cursor

LEVEL = "other"


def _is_fp(x):
    while isinstance(x, dict) and x.get("k") in ("icast", "cast", "copy") and not x.get("t"):
        x = x.get("e")
    t = (x.get("t") or x.get("to") or x.get("ret") or "") if isinstance(x, dict) else ""
    return t.replace("const ", "").replace(" &", "").strip() in ("float", "double")


def has_lit(tree, s):
    return any(n.get("k") == "lit" and n.get("s") == s for n in walk(tree))


def fn_has_lit(fn, s):
    return any(tree is not None and has_lit(tree, s) for b, kind, tree, e in fn.roots())


def cond_tests_key(F, cond, key):
    """the condition mentions the option key itself or calls a lambda / local helper whose body does"""
    if has_lit(cond, key):
        return True, any(n.get("k") == "call" and strip_targs(n.get("fn") or "").endswith("::attribute_type")
                         for n in walk(cond))
    for n in walk(cond):
        if n.get("k") == "call" and not n.get("virt"):
            for t in F.targets(n):
                if fn_has_lit(t, key):
                    keyed = any(x.get("k") == "call" and strip_targs(x.get("fn") or "").endswith("::attribute_type")
                                for b, kind, tree, e in t.roots() if tree is not None for x in walk(tree))
                    return True, keyed
    return False, False


def run(ctx, rep):
    F = ctx.F
    tab = load_table("c10.json")
    key = tab["option_key"]
    rep.rules_text.append(
        "SIBLING-SKIP: every implementation of the attribute-transform stage "
        "tests the option keyed by the attribute's type; the skip edge dominates "
        "a PointAttribute::CopyFrom of the portable attribute and cannot reach an "
        "inverse-transform / buffer-write call before the next attribute; "
        "TransferToAttribute is must-passed where a transformed portable "
        "attribute is finished; only the two implementations read the key. "
        "PORTABLE-ID: set_unique_id(<original>.unique_id()) is must-passed "
        "between the creation of a portable PointAttribute and every exit")
    rep.not_decided += ["bit-identity of user-side dequantisation with the built-in one (value-level)"]
    rep.trusted_base += ["clang 14 AST/CFG", "dfacts", "rules/c10.json"]

    # implementations = bodies of overriders of the interface method
    impls = []
    for cn, c in F.classes.items():
        if cn.startswith("verif_control::"):
            continue
        for m in c["methods"]:
            if m["sn"] == tab["interface_method"] and not m.get("pure"):
                body = F.by_m.get(m["m"])
                if body is not None:
                    impls.append(body)
    real = []
    for fn in impls:
        # the base-class default (`return true`) does nothing and has no portable attribute
        calls = list(fn.calls())
        if not calls:
            continue
        real.append(fn)
    rep.floor("implementations of the attribute-transform stage", len(real), tab["implementations_floor"])
    tcalls = set(tab["transform_calls"])
    for fn in real:
        skip_blocks = []
        for b in fn.blocks.values():
            if b.cond is not None and len(b.succ) == 2:
                tests, keyed = cond_tests_key(F, b.cond, key)
                if not tests:
                    continue
                tree, pos = _strip_not(b.cond, True)
                skip_blocks.append((b, pos, keyed))
        if not skip_blocks:
            rep.add(Obligation("SIBLING-SKIP", fn.base, "reads the skip option", fn.loc, VIOLATION,
                               detail="this implementation of the transform stage never tests '%s'" % key))
            continue
        for b, pos, keyed in skip_blocks:
            rep.add(Obligation("SIBLING-SKIP", fn.base, "option keyed by attribute type", fn.site(b.tloc or ""),
                               DISCHARGED if keyed else VIOLATION,
                               detail="`%s`" % b.condsrc[:120]))
            skip_succ = b.succ[0] if pos else b.succ[1]
            noskip_succ = b.succ[1] if pos else b.succ[0]
            # innermost loop containing the test
            loops = [l for l in fn.loops() if b.id in l[1]]
            loops.sort(key=lambda l: len(l[1]))
            header = loops[0][0] if loops else None
            region = fn.reachable(start=skip_succ, removed_blocks={header} if header is not None else set())
            copy_blocks = blocks_calling_deep(F, fn, lambda n: call_base(n) == tab["copy_call"])
            t_blocks = blocks_calling_deep(F, fn, lambda n: call_base(n) in tcalls)
            dom_copy = [cb for cb in copy_blocks if fn.edge_dominates((b.id, skip_succ), cb)]
            rep.add(Obligation("SIBLING-SKIP", fn.base, "skip path copies the portable attribute",
                               fn.site(b.tloc or ""), DISCHARGED if dom_copy else VIOLATION,
                               detail="PointAttribute::CopyFrom on the skip edge" if dom_copy else
                               "no PointAttribute::CopyFrom is dominated by the skip edge"))
            leak = sorted(region & t_blocks)
            rep.add(Obligation("SIBLING-SKIP", fn.base, "skip path runs no inverse transform",
                               fn.site(b.tloc or ""), VIOLATION if leak else DISCHARGED,
                               detail="an inverse-transform / buffer-write call is reachable from the skip edge "
                                      "before the next attribute" if leak else
                               "no call of %d transform/write callees reachable from the skip edge within the iteration"
                               % len(tcalls)))
            nregion = fn.reachable(start=noskip_succ, removed_blocks={header} if header is not None else set())
            rep.add(Obligation("SIBLING-SKIP", fn.base, "non-skip path still transforms",
                               fn.site(b.tloc or ""), DISCHARGED if (nregion & t_blocks) else VIOLATION,
                               detail="inverse transform reachable on the other edge" if (nregion & t_blocks) else
                               "the inverse transform is no longer reachable when the option is off"))
    # readers of the key
    readers = set()
    reader_fns = {}
    for fn in F.fns.values():
        if fn.name.startswith("verif_control::"):
            continue
        for b, kind, tree, e in fn.roots():
            if tree is not None and has_lit(tree, key):
                readers.add(fn.base)
                reader_fns.setdefault(fn.base, []).append(fn)
    allowed = {f.base for f in real} | set(tab["option_writers"])

    def is_allowed(base):
        return base in allowed or any(base.startswith(a + "(") or base.startswith(a + "::") for a in allowed)
    rev = {}
    for k, outs in F.callgraph().items():
        for o in outs:
            rev.setdefault(o, set()).add(k)

    def only_serves_allowed(fn, depth=0, seen=None):
        """a helper (query function, lambda) whose every caller is an allowed user reads the key for them"""
        seen = seen or set()
        cs = [F.fns[c] for c in rev.get(fn.key, ()) if c in F.fns and c not in seen]
        if not cs or depth > 2:
            return False
        return all(is_allowed(c.base) or only_serves_allowed(c, depth + 1, seen | {fn.key}) for c in cs)
    extra = sorted(r for r in readers if not is_allowed(r) and
                   not all(only_serves_allowed(f) for f in reader_fns[r]))
    rep.add(Obligation("SIBLING-SKIP", "option key", "'%s' users" % key, "-",
                       VIOLATION if extra else DISCHARGED,
                       detail="only the transform-stage implementations and %s mention the key" % tab["option_writers"]
                       if not extra else "the option is also consulted by %s (other attributes / connectivity "
                       "may depend on it)" % extra))
    # transform data attached
    for t in tab["transfer"]:
        for fn in F.need(t["fn"]):
            def is_transfer(n):
                return call_base(n) == tab["transfer_call"] and n.get("use") in ("cond", "ret", "init", "assign")
            tb = blocks_calling(fn, is_transfer)
            # the per-attribute work hoisted into a checked helper that itself must-passes the transfer
            for n_, b_, rk_, ev_ in fn.calls():
                if n_.get("k") == "call" and not n_.get("virt") and n_.get("use") in ("cond", "ret", "init", "assign"):
                    for t_ in F.targets(n_):
                        if t_.key != fn.key and "/draco/" in t_.file:
                            tb2 = blocks_calling(t_, is_transfer)
                            if tb2 and not must_pass(t_, tb2, delegate=lambda c_: call_base(c_) == tab["transfer_call"]):
                                tb.add(b_)
            if t["mode"] == "mustpass":
                bad = must_pass(fn, tb, delegate=lambda call: call_base(call) == tab["transfer_call"])
                ok = bool(tb) and not bad
            else:
                is_pub = lambda n: call_base(n).endswith("::push_back") and \
                    isinstance(n.get("obj"), dict) and n["obj"].get("n") == t["publication_field"]
                pub = blocks_calling(fn, is_pub)
                ok = bool(tb) and bool(pub) and all(any(fn.block_dominates(x, p) for x in tb) for p in pub)
                if not ok and tb and not pub:
                    # publication moved into the same helper: inside it the transfer must dominate the push_back
                    for n_, b_, rk_, ev_ in fn.calls():
                        for t_ in (F.targets(n_) if n_.get("k") == "call" and not n_.get("virt") else []):
                            tb2, pub2 = blocks_calling(t_, is_transfer), blocks_calling(t_, is_pub)
                            if tb2 and pub2 and all(any(t_.block_dominates(x, p_) for x in tb2) for p_ in pub2):
                                ok = True
            rep.add(Obligation("SIBLING-SKIP", fn.base, "transform data attached to the portable attribute",
                               fn.loc, DISCHARGED if ok else VIOLATION,
                               detail="checked TransferToAttribute %s" % (
                                   "on every success path" if t["mode"] == "mustpass" else
                                   "dominates the publication of the transform") if ok else
                               "a transformed portable attribute can be finished without TransferToAttribute"))

    # ---- PORTABLE-ID -----------------------------------------------------------
    dec = ctx.reach("decode")
    n_c = 0
    ctl_fired = False
    for fn in F.fns.values():
        is_ctl = fn.name.startswith("verif_control::c10_")
        if fn.key not in dec and not is_ctl:
            continue
        if fn.base in tab["portable_creators_exclude"]:
            continue
        news = [(n, b, e) for n, b, rk, e in fn.nodes()
                if n.get("k") == "new" and n.get("t") == "draco::PointAttribute"]
        if not news:
            continue
        for n, b, e in news:
            holder = e.get("var", {}).get("d") if e.get("k") == "decl" else None
            setters = set()
            for c, cb, rk, ce in fn.calls():
                if not call_base(c).endswith("::set_unique_id"):
                    continue
                rv = root_var(c.get("obj"))
                if holder is not None and (rv is None or rv.get("d") != holder):
                    continue
                arg = (c.get("args") or [None])[0]
                if any(s.get("k") == "call" and call_base(s).endswith("::unique_id") for s in walk(arg)):
                    setters.add(cb)
            region = fn.reachable(start=b, removed_blocks=setters - {b})
            ok = bool(setters) and (fn.exit not in region or b in setters)
            n_c += 0 if is_ctl else 1
            ctl_fired |= is_ctl and not ok
            rep.add(Obligation("PORTABLE-ID", fn.base, "new PointAttribute", fn.site(n.get("loc", "")),
                               DISCHARGED if ok else VIOLATION,
                               detail="set_unique_id(<original>.unique_id()) is passed on every path from the "
                                      "creation to an exit" if ok else
                               "a portable attribute is created and can leave the function without "
                               "set_unique_id(<original>.unique_id())", control=is_ctl))
    rep.floor("decoder-side creators of portable attributes", n_c, tab["creators_floor"])
    rep.control("PORTABLE-ID", "c10_creator_bad", ctl_fired, "creator that never sets the unique id")

    # ---- CURSOR ------------------------------------------------------------------
    rep.rules_text.append(
        "CURSOR: in every function of the attribute-decoding stage (methods of the attributes-decoder classes "
        "reachable from decode), a loop-carried cursor that indexes a side table inside a loop "
        "(per-quantized-attribute transforms, per-component minima) advances on every path back to the loop "
        "header - also on the skip path - so that 'all other attributes are unaffected by the option'")
    stage = [fn for fn in F.fns.values() if fn.key in dec and
             any(fn.base.startswith(c + "::") for c in tab["stage_classes"])]
    ctlf = [fn for fn in F.fns.values() if fn.name.startswith("verif_control::c10_cursor")]
    n_real, n_nt, ctl = run_cursor(rep, stage + ctlf)
    rep.floor("CURSOR: loop-carried index uses in the attribute-decoding stage", n_real, tab["cursor_floor"])
    rep.floor("CURSOR: of which not plain induction variables", n_nt, tab["cursor_nontrivial_floor"])
    rep.control("CURSOR", "c10_cursor_bad", ctl.get("c10_cursor_bad") is False, "stalling cursor must be reported")
    rep.control("CURSOR", "c10_cursor_ok (negative)", ctl.get("c10_cursor_ok") is True, "must be discharged")

    # ---- SIBLING-COMPUTE -------------------------------------------------------------
    rep.rules_text.append(
        "SIBLING-COMPUTE: the two implementations of dequantisation (the kd-tree decoder's own loop and "
        "AttributeQuantizationTransform::InverseTransformAttribute, which a client applies to skipped data) call the "
        "same value-transforming functions (Dequantizer::*, min/max/clamp/abs/rounding) and use the same "
        "floating-point operators: a clamp, rounding or offset added to one only makes 'skip + described transform' "
        "differ from the ordinary decode")
    for sc in tab["sibling_computations"]:
        sigs = {}
        for side in ("a", "b"):
            fns = list(F.need(sc[side]))
            # file-local / same-class helpers the implementation was split into (two levels)
            frontier = list(fns)
            for _ in range(2):
                nxt = []
                for f_ in frontier:
                    for n_, b_, rk_, ev_ in f_.calls():
                        if n_.get("k") == "call" and not n_.get("virt") and \
                                strip_targs(n_.get("fn") or "") not in (sc["a"], sc["b"]):
                            for t_ in F.targets(n_):
                                if "/draco/" in t_.file and t_ not in fns and \
                                        not any(strip_targs(n_.get("fn") or "").startswith(f) for f in sc["families"]) and \
                                        (t_.file == f_.file or t_.cls == f_.cls):
                                    fns.append(t_)
                                    nxt.append(t_)
                frontier = nxt
            calls, fops = set(), set()
            for fn in fns:
                for blk, rk, tree, ev in fn.roots():
                    if tree is None:
                        continue
                    for n in walk(tree):
                        if n.get("k") == "call":
                            b_ = strip_targs(n.get("fn") or "")
                            if any(b_ == f or (f.endswith("::") and b_.startswith(f)) for f in sc["families"]):
                                calls.add(b_)
                        elif n.get("k") == "bin" and n.get("op") in ("+", "-", "*", "/", "+=", "-=", "*=", "/=") and \
                                (_is_fp(n) or any(_is_fp(x) for x in (n.get("l"), n.get("r")))):
                            fops.add(n["op"].rstrip("="))
            sigs[side] = (calls, fops)
            sigs[side + "_calls_other"] = any(
                n.get("k") == "call" and strip_targs(n.get("fn") or "") == sc["b" if side == "a" else "a"]
                for fn in fns for blk, rk, tree, ev in fn.roots() if tree is not None for n in walk(tree))
        # delegation: an implementation that calls the other one shares its computation
        for side, other in (("a", "b"), ("b", "a")):
            if sigs[side + "_calls_other"]:
                sigs[side] = (sigs[side][0] | sigs[other][0], sigs[side][1] | sigs[other][1])
        same = sigs["a"] == sigs["b"]
        rep.add(Obligation("SIBLING-COMPUTE", sc["id"], "%s <-> %s" % (sc["a"].replace("draco::", ""), sc["b"].replace("draco::", "")),
                           F.need(sc["b"])[0].loc, DISCHARGED if same else VIOLATION,
                           detail="both call %s and use float ops %s" % (sorted(sigs["a"][0]), sorted(sigs["a"][1])) if same else
                           "the two implementations differ: %s has calls %s / float ops %s, %s has calls %s / float ops %s" % (
                               sc["a"].split("::")[-2], sorted(sigs["a"][0] - sigs["b"][0]), sorted(sigs["a"][1] - sigs["b"][1]),
                               sc["b"].split("::")[-2], sorted(sigs["b"][0] - sigs["a"][0]), sorted(sigs["b"][1] - sigs["a"][1]))))

    skipmap(ctx, rep)


def skipmap(ctx, rep):
    """SKIPMAP: the portable attribute that the sequential stage copies out on the skip path carries the final
    attribute's point->value map: the function that supplies the CopyFrom source reaches the code that copies
    the map (SetExplicitMapping / SetPointMapEntry).  Without it the published attribute claims an identity
    mapping while holding fewer values than points (C03: every point maps to an existing value)."""
    F = ctx.F
    tab = load_table("c10.json")
    rep.rules_text.append(
        "SKIPMAP: in the sequential transform stage the source of the skip path's PointAttribute::CopyFrom is "
        "obtained from a function that reaches PointAttribute::SetPointMapEntry / SetExplicitMapping (the portable "
        "attribute gets the final attribute's point map before it is published)")
    n = 0
    for fn in F.need("draco::SequentialAttributeDecodersController::TransformAttributesToOriginalFormat"):
        def is_map(c):
            return call_base(c) in ("draco::PointAttribute::SetPointMapEntry", "draco::PointAttribute::SetExplicitMapping")
        suppliers = []
        for c, b, rk, ev in fn.calls():
            if c.get("k") == "call" and call_base(c).endswith("::GetPortableAttribute") or \
                    (c.get("k") == "call" and "Portable" in call_base(c) and "PointAttribute" in (c.get("ret") or "")):
                suppliers.append(c)
        # lambdas / helpers the stage was split into
        if not suppliers:
            for c, b, rk, ev in fn.calls():
                for t in (F.targets(c) if c.get("k") == "call" and not c.get("virt") else []):
                    for c2, b2, rk2, ev2 in t.calls():
                        if c2.get("k") == "call" and "Portable" in call_base(c2) and "PointAttribute" in (c2.get("ret") or ""):
                            suppliers.append(c2)
        if not suppliers:
            rep.note("SKIPMAP: no portable-attribute supplier call found in the sequential transform stage (not decided)")
            continue
        for c in suppliers[:1]:
            n += 1
            ok = any(reaches_call(F, t, is_map, depth=2) for t in F.targets(c))
            rep.add(Obligation("SKIPMAP", fn.base, "source of the skip path's CopyFrom: " + call_base(c).replace("draco::", ""),
                               fn.site(c.get("loc", "")), DISCHARGED if ok else VIOLATION,
                               detail="the supplier copies the final attribute's point map onto the portable attribute"
                               if ok else "%s no longer reaches SetPointMapEntry / SetExplicitMapping: the attribute "
                               "published on the skip path has no point map" % call_base(c)))
    return n
