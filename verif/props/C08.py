"""C08 — symbol entropy coding is lossless and self-delimiting (partial).

WITNESS: encoder and decoder use the same rANS precision for every bit length
(and the precision leaves room for every distinct symbol).  DISPATCH: the
scheme ids and raw bit lengths the encoder can select are dispatched by the
decoder to the sibling instantiation.  DROPPED(enc): failures of the symbol
encoder are propagated ("reports failure instead of emitting").
"""
from ..core import Obligation, DISCHARGED, VIOLATION, ALLOWED, load_table
from ..facts import walk, strip_targs
from ..substrate import AnalysisBroken
from ..dropped import CanFail, find_sites
from ..dispatch_check import run_families
from .. import ledger

LEVEL = "other"


def _has_max_lo(F, rhs, lo, depth=0):
    """rhs contains std::max(lo, ..), directly or as the value every return of a called helper yields."""
    for c in walk(rhs):
        if c.get("k") != "call":
            continue
        if strip_targs(c.get("fn") or "") == "std::max":
            for a in c.get("args", []):
                aa = a
                while isinstance(aa, dict) and aa.get("k") in ("icast", "cast") and "v" not in aa:
                    aa = aa.get("e")
                if isinstance(aa, dict) and aa.get("v") == lo:
                    return True
        elif depth < 2 and (c.get("fn") or "").startswith(("draco::", "(anonymous")) or \
                (depth < 2 and "::" not in (c.get("fn") or "x::")):
            tg = F.targets(c)
            if tg and all(t.returns() and all(_has_max_lo(F, ev.get("e"), lo, depth + 1) or
                                              _ret_var_clamped(F, t, ev.get("e"), lo, depth + 1)
                                              for b, ev in t.returns()) for t in tg):
                return True
    return False


def _ret_var_clamped(F, fn, e, lo, depth):
    while isinstance(e, dict) and e.get("k") in ("icast", "cast", "copy"):
        e = e.get("e")
    if isinstance(e, dict) and e.get("k") in ("var", "param") and e.get("n"):
        return _clamped_in(F, fn, e["n"], lo, depth)
    return False


def _clamped_in(F, fn, var, lo, depth=0):
    for b, kind, tree, e in fn.roots():
        if tree is None:
            continue
        for n in walk(tree):
            tgt = rhs = None
            if n.get("k") == "bin" and n.get("op") == "=":
                tgt, rhs = n.get("l"), n.get("r")
            if kind == "decl" and n is tree:
                tgt, rhs = {"k": "var", "n": e.get("var", {}).get("n")}, tree
            if not isinstance(tgt, dict) or tgt.get("n") != var:
                continue
            if _has_max_lo(F, rhs, lo, depth):
                return True
    return False


def clamp_verified(F, fn_base, var, lo):
    """Is `var` assigned from an expression containing std::max(lo, ..) - directly or through a helper
    whose every return is such an expression?"""
    return any(_clamped_in(F, fn, var, lo) for fn in F.find(fn_base))


def run(ctx, rep):
    F = ctx.F
    tab = load_table("c08.json")
    rep.rules_text.append(
        "WITNESS: RAnsSymbolEncoder<n>::rans_precision_bits_ == "
        "RAnsSymbolDecoder<n>::rans_precision_bits_ for every instantiated n "
        "(1..18), RAnsEncoder<p>::l_rans_base == RAnsDecoder<p>::l_rans_base, "
        "2^precision(n) >= 2^n (static_assert TU); DISPATCH: symbol scheme ids "
        "and raw bit lengths map to sibling instantiations on both sides; "
        "DROPPED(enc) over the entropy layer")
    rep.not_decided += ["losslessness of the rANS state machine; exact byte consumption (value-level)"]
    rep.trusted_base += ["clang 14 constant evaluation", "dfacts", "rules/c08.json"]

    # ---- WITNESS -----------------------------------------------------------
    n_w = 0
    for n in range(1, 19):
        e = F.globals.get("draco::RAnsSymbolEncoder<%d>::rans_precision_bits_" % n)
        d = F.globals.get("draco::RAnsSymbolDecoder<%d>::rans_precision_bits_" % n)
        if e is None or d is None:
            rep.broken("RAnsSymbol{En,De}coder<%d> is no longer instantiated on both sides" % n)
            continue
        n_w += 1
        st = DISCHARGED if e.get("v") == d.get("v") and e.get("v") is not None else VIOLATION
        rep.add(Obligation("WITNESS", "rans_precision_bits_", "bit length %d" % n, d["loc"], st,
                           detail="encoder %s, decoder %s" % (e.get("v"), d.get("v"))))
    import re
    bases = {}
    for k, g in F.globals.items():
        m = re.match(r"draco::RAns(Encoder|Decoder)<(\d+)>::l_rans_base$", k)
        if m:
            bases.setdefault(int(m.group(2)), {})[m.group(1)] = g.get("v")
    for p, sides in sorted(bases.items()):
        if len(sides) == 2:
            n_w += 1
            st = DISCHARGED if sides["Encoder"] == sides["Decoder"] else VIOLATION
            rep.add(Obligation("WITNESS", "l_rans_base", "precision %d" % p, "-", st,
                               detail="encoder %s, decoder %s" % (sides["Encoder"], sides["Decoder"])))
    rep.floor("precision / base witnesses", n_w, tab["witness_floor"])
    # same declaration on both sides + room for every distinct symbol
    extra = []
    for n in list(range(1, 19)):
        extra.append(("room(%d)" % n,
                      "(1 << draco::ComputeRAnsPrecisionFromUniqueSymbolsBitLength(%d)) >= (1 << %d)" % (n, n)))
    extra.append(("room(tag)", "(1 << draco::ComputeRAnsPrecisionFromUniqueSymbolsBitLength(5)) >= 32"))
    src = '#include "draco/compression/entropy/rans_symbol_coding.h"\n' \
          '#define W(id, ...) static_assert(__VA_ARGS__, "WITNESS:" id)\n' + \
          "".join('W("%s", %s);\n' % (i, e) for i, e in extra)
    ledger.run_witness(ctx, rep, src, [i for i, _ in extra], rule="WITNESS")
    from ..core import Report
    crep = Report("ctl", "quick")
    ledger.run_witness(ctx, crep, src + 'W("control", (1 << draco::ComputeRAnsPrecisionFromUniqueSymbolsBitLength(18)) >= (1 << 21));\n',
                       ["control"], rule="WITNESS")
    rep.control("WITNESS", "room(18) >= 2^21 (false)", any(o.status == VIOLATION for o in crep.obls),
                "a false static_assert must be reported")

    # ---- DISPATCH ------------------------------------------------------------
    before = len(rep.obls)
    run_families(F, rep, ids={"symbol_scheme", "raw_symbol_bit_length"})
    # the fallthrough label 0 of the writer is dead: the length is clamped to >= 1
    for o in rep.obls[before:]:
        if o.status == VIOLATION and o.function == "raw_symbol_bit_length" and o.construct.startswith("id 0 "):
            d = tab["writer_dead_ids"]["raw_symbol_bit_length"]["0"]
            if clamp_verified(F, d["fn"], d["var"], d["min"]):
                o.status, o.by = ALLOWED, d["why"] + " (re-checked: assignment through std::max(%d, ..) found)" % d["min"]

    # ---- DROPPED(enc) ----------------------------------------------------------
    cf = CanFail(F)
    scope = set()
    for fn in F.fns.values():
        if any(fn.file.endswith(f) for f in tab["entropy_files"]) and fn.key in ctx.reach("encode"):
            scope.add(fn.key)
    callees = set(tab["fallible_entropy_callees"])

    def filt(cb, n):
        return cb in callees
    # callers of the entropy layer anywhere on the encode path
    for key in ctx.reach("encode"):
        fn = F.fns.get(key)
        if fn is None:
            continue
        for n, b, rk, e in fn.calls():
            if strip_targs(n.get("fn") or "") in callees:
                scope.add(key)
                break
    obls, stale = find_sites(F, scope, cf, filt, "DROPPED", tab["dropped_allow"], {})
    seen = set()
    n_real = 0
    for o in obls:
        k = (o.function, o.site, o.construct)
        if k in seen:
            continue
        seen.add(k)
        rep.add(o)
        n_real += 1
    rep.floor("fallible entropy-layer call sites on the encode path", n_real, tab["dropped_floor"])
    from .C01 import wiresig
    wiresig(ctx, rep, ids=("rans_table", "rans_end", "symbols", "tagged", "raw"))
    from ..rejects import run_rejects
    rep.rules_text.append("REJECT-LEDGER: every constant-bound rejection of a stream-derived field in the readers (a branch outcome that only reaches failing returns on `field op constant`) is listed in the frozen ledger rules/rejects.json; a new one narrows what the reader accepts")
    n_rej = run_rejects(ctx, rep, "REJECT-LEDGER", ("/compression/entropy/",))
    rep.floor("constant-bound rejections inspected", n_rej, 0)

    narrow_ledger(ctx, rep, tab)
    # the tagged scheme stores every value through EncoderBuffer's bit writer: its shifts are part of the scheme
    from .C17 import widenshift
    widenshift(ctx, rep)

    for s_ in stale:
        rep.note("stale allow entry: " + s_)


def narrow_ledger(ctx, rep, tab):
    """NARROW-LEDGER: the entropy layer carries symbol ids, counts and probabilities in 32 bits; the set of
    conversions of a run-time integer to fewer than 32 bits (bool tests aside) is closed and reviewed.  A new
    one (a 16-bit look-up table entry, a uint16 symbol count) silently truncates the sparse alphabets the raw
    scheme is allowed to carry (symbol ids up to 2^18 and beyond with few distinct values)."""
    from ..facts import walk
    F = ctx.F
    rep.rules_text.append(
        "NARROW-LEDGER: in the entropy coder sources every conversion of a non-constant integer to fewer than 32 "
        "bits (other than to bool) is listed in rules/c08.json with the reason its operand fits")
    ledger = tab.get("narrow_ledger", {})
    seen = {}

    def contexts(tree):
        """{id(cast node): context} - what the narrowed value is used for (names of locals do not matter)"""
        out = {}

        def visit(n, ctx_):
            if not isinstance(n, dict):
                return
            k = n.get("k")
            if k in ("icast", "cast"):
                out[id(n)] = ctx_
            if k == "call":
                nm = strip_targs(n.get("fn") or "").replace("draco::", "")
                for a in n.get("args") or []:
                    visit(a, "argument of " + nm)
                visit(n.get("obj"), ctx_)
                return
            if k == "bin" and n.get("op", "").endswith("=") and n["op"] not in ("==", "!=", "<=", ">="):
                l = n.get("l")
                tgt = "element store" if isinstance(l, dict) and (l.get("k") in ("sub",) or (
                    l.get("k") == "call" and strip_targs(l.get("fn") or "").endswith("operator[]"))) else "assignment"
                visit(n.get("r"), tgt)
                visit(l, ctx_)
                return
            for kk in ("e", "l", "r", "c", "t", "f", "base", "idx"):
                visit(n.get(kk), ctx_)
            for a in n.get("args") or []:
                visit(a, ctx_)
        visit(tree, "expression")
        return out
    for f in F.fns.values():
        is_ctl = f.name.startswith("verif_control::c08_narrow")
        if "/draco/compression/entropy/" not in f.file and not is_ctl:
            continue
        for b, rk, tree, ev in f.roots():
            if tree is None:
                continue
            cx = contexts(tree)
            for n in walk(tree):
                if n.get("k") not in ("icast", "cast") or not n.get("iw") or "v" in n or n["iw"] >= 32 or n["iw"] == 1:
                    continue
                e = n.get("e")
                while isinstance(e, dict) and e.get("k") in ("copy", "paren"):
                    e = e.get("e")
                if not isinstance(e, dict) or not e.get("iw") or e["iw"] <= n["iw"]:
                    continue
                c_ = cx.get(id(n), "expression")
                if c_ == "expression" and rk == "decl":
                    c_ = "initialiser of a local"
                elif c_ == "expression" and rk == "ret":
                    c_ = "returned value"
                key = "%d | %s" % (n["iw"], c_)
                seen.setdefault((key, is_ctl), (f, n, ev))
    n_real, fired = 0, False
    for (key, is_ctl), (f, n, ev) in sorted(seen.items(), key=lambda x: (x[0][0], x[0][1])):
        ok = key in ledger
        n_real += 0 if is_ctl else 1
        fired |= is_ctl and not ok
        rep.add(Obligation("NARROW-LEDGER", f.base, "narrowing to " + key, f.site(n.get("loc", "") or ev.get("loc", "")),
                           DISCHARGED if ok else VIOLATION, control=is_ctl, trivial=ok,
                           detail=ledger.get(key, "") if ok else
                           "`%s`: a run-time %d-bit value is narrowed to %d bits in the entropy coder and is not in the "
                           "reviewed ledger: symbol ids / counts beyond 2^%d are truncated" % (
                               ev.get("src", "")[:80], (n.get("e") or {}).get("iw") or 32, n["iw"], n["iw"])))
    rep.floor("narrowing integer conversions in the entropy sources", n_real, 1)
    rep.control("NARROW-LEDGER", "c08_narrow_bad", fired, "a 16-bit table entry for a 32-bit symbol id must be reported")
