"""C17 — bit, varint and buffer primitives (one clause decided).

Only "reading past the written data fails or yields zeros but never touches
memory outside the buffer" is decided: PRIMBOUND over *every* primitive reader
class C17's anchor names, whether or not a Decoder entry point reaches it.
The inverse-pair (round trip) clauses quantify over all values: not decided.
"""
from ..core import load_table
from ..facts import strip_targs
from .. import primbound

LEVEL = "other"


def run(ctx, rep):
    prim = load_table("primitives.json")
    tab = load_table("c02.json")
    rep.rules_text.append(
        "PRIMBOUND over all primitive readers (DecoderBuffer, its BitDecoder, "
        "rABS/rANS readers, direct / folded / symbol / rANS / adaptive-rANS bit "
        "decoders): every raw-pointer subscript or deref of the window, every "
        "memcpy / little-endian load from it, every iterator deref and every "
        "back()/front()/pop_back() on the reader's own storage is dominated by a "
        "comparison on the accessed offset, pointer or container (offset >= K "
        "for base[v-K] forms)")
    rep.not_decided += [
        "writer/reader pairs being exact inverses for all values and bit widths (value-level, input-quantified)",
        "vector operator[] with indices derived from table contents (rANS look-up tables): structural invariants, not comparisons"]
    rep.trusted_base += ["clang 14 AST/CFG", "dfacts", "rules/primitives.json"]
    scope = list(ctx.F.fns.values())
    n = primbound.run(ctx, rep, scope, "PRIMBOUND", tab["primbound_allow"],
                      set(prim["classes"]), set(prim["free_functions"]),
                      control_names=("prim_bad", "prim_ok"))
    rep.floor("window dereference sites in primitive readers", n, prim["floor_all"])
    from .C01 import wiresig
    wiresig(ctx, rep, ids=("rabs", "direct", "bit_region", "rans_end", "kd_points"))
    widenshift(ctx, rep)
    pairstate(ctx, rep)
    from ..predsig import run_sibling_fp
    rep.rules_text.append("SIBLING-FP: a bit / entropy coder's encoder and decoder classes that both compute in floating point use the same floating-point types (adaptive state derived on both sides must be bit-identical)")
    n_fp = run_sibling_fp(ctx, rep, ("/draco/compression/bit_coders/", "/draco/compression/entropy/", "/draco/core/"))
    rep.floor("encoder/decoder class pairs that both use floating point", n_fp, 1)
    for note in (prim.get("_note_dead_readers"),):
        if note:
            rep.note(note)


def widenshift(ctx, rep):
    """WIDENSHIFT: in the bitstream primitives no left shift by a run-time amount is carried out in 32 bits
    and only then widened to 64 bits (`value64 |= (byte & 0x7f) << shift`): the bits above 31 are lost for
    exactly the wide values the 64-bit variant exists for, so the writer/reader pair stops being an inverse."""
    from ..core import Obligation, DISCHARGED, VIOLATION
    from ..facts import walk
    F = ctx.F
    rep.rules_text.append(
        "WIDENSHIFT: in draco/core and the bit / entropy coders, every `a << n` with a run-time n whose result is "
        "converted to a 64-bit type is itself computed in 64 bits (a 32-bit shift that is widened afterwards drops "
        "the high bits of 64-bit varints, sizes and bit fields)")
    dirs = ("/draco/core/", "/compression/bit_coders/", "/compression/entropy/")
    n_sh, seen = 0, set()
    fired = False
    wide_shifts = {}
    for fn in F.fns.values():
        is_ctl = fn.name.startswith("verif_control::") and ("widenshift" in fn.name or "wideshift" in fn.name)
        if not is_ctl and not any(d in fn.file for d in dirs):
            continue
        for blk, rk, tree, ev in fn.roots():
            if tree is None:
                continue
            for n in walk(tree):
                if n.get("k") != "bin" or n.get("op") not in ("<<", "<<=") or "v" in n:
                    continue
                r = n.get("r")
                if isinstance(r, dict) and "v" in r:
                    continue
                n_sh += 0 if is_ctl else 1
                # SHIFT-LEDGER: the left operand is a full-width run-time value (not a constant, a single bit or
                # a byte): the shift can push set bits out of the word
                l = n.get("l")
                while isinstance(l, dict) and l.get("k") in ("copy", "paren"):
                    l = l.get("e")
                lw = l
                while isinstance(lw, dict) and lw.get("k") in ("icast", "cast") and "v" not in lw:
                    lw = lw.get("e")
                if not isinstance(lw, dict) or "v" in lw or (lw.get("iw") or 32) <= 8:
                    continue
                if lw.get("k") == "call" and strip_targs(lw.get("fn") or "").rsplit("::", 1)[-1] in ("GetBit", "PeekBit"):
                    continue
                if (n.get("iw") or (l.get("iw") if isinstance(l, dict) else None) or 32) >= 64:
                    continue          # 64-bit shifts of 32-bit payloads
                nm = None
                for x in walk(lw):
                    if x.get("k") in ("var", "field") and x.get("n"):
                        nm = x["n"]
                        break
                wide_shifts.setdefault((fn.base.replace("draco::", "").replace("verif_control::", ""), is_ctl), []).append(
                    (fn, ev, nm or "expression", n.get("loc") or ev.get("loc", "")))
            for n in walk(tree):
                if n.get("k") in ("icast", "cast") and (n.get("iw") or 0) >= 64 and "v" not in n:
                    e = n.get("e")
                    while isinstance(e, dict) and e.get("k") in ("copy", "paren"):
                        e = e.get("e")
                    if isinstance(e, dict) and e.get("k") == "bin" and e.get("op") == "<<" and "v" not in e and \
                            not (isinstance(e.get("r"), dict) and "v" in e["r"]) and (e.get("iw") or 32) <= 32:
                        site = fn.site(ev.get("loc", ""))
                        if (fn.base, site) in seen:
                            continue
                        seen.add((fn.base, site))
                        fired |= is_ctl
                        rep.add(Obligation("WIDENSHIFT", fn.base, "32-bit shift widened to 64 bits", site, VIOLATION,
                                           detail="`%s`: the shift is evaluated in 32 bits and widened afterwards; bits "
                                                  "above 31 are lost" % (ev.get("src") or "")[:100], control=is_ctl))
    rep.add(Obligation("WIDENSHIFT", "bitstream primitives", "run-time shifts inspected", "-", DISCHARGED,
                       detail="%d left shifts by a run-time amount inspected; none is a 32-bit shift widened to 64 bits"
                              % n_sh, trivial=True))
    ledger = load_table("primitives.json").get("wide_shift_ledger", {})
    rep.rules_text.append(
        "SHIFT-LEDGER: the run-time left shifts in the bitstream primitives whose left operand is a full-width value "
        "(they drop whatever is pushed past bit 31) are a closed, reviewed set; a new one (gathering `data << bit_shift` "
        "in a 32-bit temporary) loses the top bits of wide fields")
    lf = False
    # a function that is not listed but is a private helper (same class / file-local) of listed functions only
    # carries a reviewed shift that was moved: it is counted with its callers
    rev = {}
    for k_, outs in F.callgraph().items():
        for o in outs:
            rev.setdefault(o, set()).add(k_)

    def owner(fn, depth=0):
        name = fn.base.replace("draco::", "")
        if name in ledger or depth > 2:
            return name if name in ledger else None
        private = fn.is_lambda or "(anonymous namespace)" in fn.name or fn.cls
        cs = [F.fns[c] for c in rev.get(fn.key, ()) if c in F.fns]
        if not private or not cs:
            return None
        owners = set()
        for c in cs:
            if fn.cls and c.cls and strip_targs(c.cls) != strip_targs(fn.cls) and not (
                    fn.is_lambda or "(anonymous namespace)" in fn.name):
                return None
            o = owner(c, depth + 1)
            if o is None:
                return None
            owners.add(o)
        return sorted(owners)[0] if len(owners) == 1 else None
    groups = {}
    for (name, is_ctl), items in wide_shifts.items():
        sites = {(it[3], it[2]) for it in items}        # template instantiations share sites
        fn = items[0][0]
        own = name if (name in ledger or is_ctl) else owner(fn)
        groups.setdefault((own or name, is_ctl, own is not None), []).append((fn, items[0][1], sites))
    for (gname, is_ctl, known), members in sorted(groups.items(), key=lambda x: str(x[0])):
        total = sum(len(m[2]) for m in members)
        allowed = ledger.get(gname, {}).get("count", 0) if known and not is_ctl else 0
        ok = total <= allowed
        lf |= is_ctl and not ok
        fn, ev = members[0][0], members[0][1]
        rep.add(Obligation("SHIFT-LEDGER", fn.base, "full-width run-time left shifts (%d)" % total,
                           fn.site(ev.get("loc", "")), DISCHARGED if ok else VIOLATION, control=is_ctl, trivial=ok,
                           detail=ledger.get(gname, {}).get("why", "") if ok else
                           "`%s`: %d left shift(s) of a full-width run-time value in 32 bits here (with private helpers), "
                           "%d reviewed in the ledger: bits pushed past bit 31 are lost" % (
                               (ev.get("src") or "")[:90], total, allowed)))
    rep.control("SHIFT-LEDGER", "c17_wideshift_bad", lf, "an unlisted full-width shift must be reported")
    rep.floor("run-time left shifts in the bitstream primitives", n_sh, 5)
    rep.control("WIDENSHIFT", "c17_widenshift_bad", fired, "a widened 32-bit shift must be reported")


def pairstate(ctx, rep):
    """PAIRSTATE: what a sequence's End* reads, its Start* has written - on every path.  A member that Start*
    writes only in one branch (the stored size of a *sized* bit sequence) still holds the previous sequence's
    value when the next sequence takes the other branch, and End* then uses it."""
    from ..core import Obligation, DISCHARGED, VIOLATION
    from ..reset import Run
    F = ctx.F
    rep.rules_text.append(
        "PAIRSTATE: for every Start*/End* method pair of the buffer and bit-coder classes, a member that End* reads "
        "and Start* writes on some path is written on every successful path of Start* (no value of an earlier "
        "sequence survives into a later one)")
    dirs = ("/draco/core/", "/compression/bit_coders/", "/compression/entropy/")
    by_cls = {}
    for fn in F.fns.values():
        is_ctl = fn.name.startswith("verif_control::ps17_")
        if not fn.cls or not (any(d in fn.file for d in dirs) or is_ctl):
            continue
        sh = fn.base.rsplit("::", 1)[-1]
        if sh.startswith(("Start", "End")):
            by_cls.setdefault(strip_targs(fn.cls), {}).setdefault(sh, fn)
    n, fired = 0, False
    for cls, ms in sorted(by_cls.items()):
        is_ctl = cls.startswith("verif_control::")
        for sname, sfn in sorted(ms.items()):
            if not sname.startswith("Start"):
                continue
            efn = ms.get("End" + sname[5:])
            if efn is None:
                continue
            eff = Run.effects(None, sfn)
            written = {}
            for b, f, kind in eff:
                written.setdefault(f, set()).add(b)
            reads = Run.reads(None, efn)
            for f in sorted(set(written) & reads):
                ok = Run._must_pass(None, sfn, written[f])
                n += 0 if is_ctl else 1
                fired |= is_ctl and not ok
                rep.add(Obligation("PAIRSTATE", sfn.base, "writes %s (read by %s)" % (f[1], efn.base.rsplit("::", 1)[-1]),
                                   sfn.loc, DISCHARGED if ok else VIOLATION, control=is_ctl, trivial=ok,
                                   detail="written on every successful path" if ok else
                                   "%s reads %s, which %s writes on some paths only: after a sequence that took the writing "
                                   "branch, a sequence that does not still sees the old value" % (
                                       efn.base.replace("draco::", ""), f[1], sfn.base.replace("draco::", ""))))
    rep.floor("Start*/End* member hand-overs in the buffer and bit-coder classes", n, 3)
    rep.control("PAIRSTATE", "ps17_ pair", fired, "a member written in one branch of Start and read by End must be reported")
