"""C17 — bit, varint and buffer primitives (one clause decided).

Only "reading past the written data fails or yields zeros but never touches
memory outside the buffer" is decided: PRIMBOUND over *every* primitive reader
class C17's anchor names, whether or not a Decoder entry point reaches it.
The inverse-pair (round trip) clauses quantify over all values: not decided.
"""
from ..core import load_table
from .. import primbound

LEVEL = "other"


def run(ctx, rep):
    prim = load_table("primitives.json")
    tab = load_table("c02.json")
    rep.rules_text.append(
        "PRIMBOUND over all primitive readers (DecoderBuffer, its BitDecoder, "
        "rABS/rANS readers, direct / folded / symbol / rANS / adaptive-rANS bit "
        "decoders): every raw-pointer subscript or deref of the window, every "
        "memcpy / little-endian load from it, every iterator deref and every "
        "back()/front()/pop_back() on the reader's own storage is dominated by a "
        "comparison on the accessed offset, pointer or container (offset >= K "
        "for base[v-K] forms)")
    rep.not_decided += [
        "writer/reader pairs being exact inverses for all values and bit widths (value-level, input-quantified)",
        "vector operator[] with indices derived from table contents (rANS look-up tables): structural invariants, not comparisons"]
    rep.trusted_base += ["clang 14 AST/CFG", "dfacts", "rules/primitives.json"]
    scope = list(ctx.F.fns.values())
    n = primbound.run(ctx, rep, scope, "PRIMBOUND", tab["primbound_allow"],
                      set(prim["classes"]), set(prim["free_functions"]),
                      control_names=("prim_bad", "prim_ok"))
    rep.floor("window dereference sites in primitive readers", n, prim["floor_all"])
    from .C01 import wiresig
    wiresig(ctx, rep, ids=("rabs", "direct", "bit_region", "rans_end", "kd_points"))
    for note in (prim.get("_note_dead_readers"),):
        if note:
            rep.note(note)
