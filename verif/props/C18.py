"""C18 — decoder memory is bounded by stream length and declared counts.

ALLOCGUARD: every allocation / container sizing on the decode path whose size
is data-dependent on the stream is dominated by a guard against the remaining
input (G1), an existing / declared count (G2, DECL) or a small constant (G3).
LOOPGROW: loops bounded by a stream value that grow a container need such a
guard on the bound, or consume input (a checked read) in every iteration.
"""
from ..core import load_table, DISCHARGED, VIOLATION
from ..taintcheck import engine, run_rule, check_controls
from .. import sinks as S

LEVEL = "other"


def run(ctx, rep):
    tab = load_table("c18.json")
    eng = engine(ctx)
    rep.rules_text.append(
        "ALLOCGUARD: a stream-derived value (explicit data flow from the read "
        "primitives of rules/sources.json, through locals, fields, parameters, "
        "out-parameters and return values, summaries to fixpoint) that sizes "
        "std::vector/std::string resize/reserve/assign/sized-ctor or new[] in "
        "Reach(decode entry points) must be dominated by a CFG condition edge "
        "that bounds it above by the remaining input (G1), an existing or "
        "declared count (G2/DECL) or a constant <= 2^20 (G3). LOOPGROW: same "
        "for the bound of a loop whose body grows a container, unless a "
        "checked stream read dominates the growth in every iteration")
    rep.not_decided += [
        "the constant of the 'fixed multiple'; peak live memory",
        "sufficiency of a guard's arithmetic (a guard is matched by kind, not proved tight)",
        "allocations inside libstdc++ growth policies; implicit (control) dependences"]
    rep.assumptions += [
        "explicit-flow taint only; raw-pointer aliasing beyond the out-parameter idiom is not tracked",
        "a non-constant comparand that carries no stream label is an existing program quantity (G2)",
        "fields are object-insensitive (class, name)"]
    rep.trusted_base += ["clang 14 AST/CFG", "dfacts", "rules/sources.json",
                         "rules/declared_counts.json (the counts C18 itself tolerates)"]
    allow = tab.get("allow", {})
    a = run_rule(ctx, rep, "ALLOCGUARD", S.alloc_sinks, allow)
    l = run_rule(ctx, rep, "LOOPGROW", S.loopgrow_sinks, allow)
    check_controls(rep, "ALLOCGUARD", a,
                   ["alloc_bad", "alloc_bigconst_bad", "alloc_lower_bad", "alloc_signed_view_bad",
                    "alloc_summary_bad", "alloc_new_bad", "alloc_wrap_bad"],
                   ["alloc_ok", "alloc_helper_ok", "alloc_wide_ok"])
    check_controls(rep, "LOOPGROW", l, ["loop_bad"], ["loop_ok"])
    real_a = [o for o in a if not o.control]
    real_l = [o for o in l if not o.control]
    rep.floor("ALLOCGUARD obligations in Reach(decode)", len(real_a), tab["alloc_floor"])
    rep.floor("LOOPGROW obligations in Reach(decode)", len(real_l), tab["loop_floor"])
    # the guards the property's anchor quotes must each discharge something
    # (as a group: an edit that legitimately restructures one of these functions must not make the whole
    # check unusable, but the rule matching none of them any more means the rule has rotted)
    n_hit, missing = 0, []
    for g in tab["quoted_guards"]:
        hit = [o for o in real_a + real_l
               if o.function == g["fn"] and o.status == DISCHARGED and g["kind"] in o.by]
        n_hit += 1 if hit else 0
        if not hit:
            missing.append("%s (%s)" % (g["fn"], g["what"]))
    rep.floor("guards quoted by the property's anchor that discharge an obligation", n_hit,
              len(tab["quoted_guards"]) - 2)
    for m_ in missing:
        rep.note("quoted guard no longer discharges an obligation (restructured?): " + m_)
    rep.extra_cov["taint"] = {
        "scope_functions": len(eng.scope), "summary_rounds": eng.rounds,
        "stream_labels": len(eng.label_info),
        "sizing_fields": sorted("%s::%s" % k for k in eng.sizing_fields)[:60],
        "functions_with_param_sink_summaries":
            sum(1 for s in eng.summaries.values() if s["sink"]),
        "declared_counts": len(ctx._engine_tables[1]["declared"]),
    }
