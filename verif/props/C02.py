"""C02 — decoding arbitrary bytes is memory-safe, UB-free, returns a Status
(partial; clauses and rules in DESIGN §4 C02)."""
from ..core import Obligation, DISCHARGED, VIOLATION, ALLOWED, NOTE, load_table
from ..facts import walk, strip_targs
from ..dropped import CanFail, find_sites, cannot_fail_with_const_arg
from ..taintcheck import engine, run_rule, check_controls
from .. import sinks as S
from .. import primbound

LEVEL = "other"


def _find_call(fn, loc_site, callee):
    for n, b, rk, ev in fn.calls():
        if strip_targs(n.get("fn") or "") == callee and fn.site(n.get("loc", "")) == loc_site:
            return n
    return None


def dropped_dec(ctx, rep, tab):
    F = ctx.F
    cf = CanFail(F, extra_can_fail=set(tab["int_error_convention"]))
    scope = set(ctx.reach("decode"))
    ctl = [f for f in F.fns.values() if f.name.startswith("verif_control::dropped_dec")]
    scope |= {f.key for f in ctl}
    obls, stale = find_sites(F, scope, cf, lambda cb, n: cb.startswith("draco::"),
                             "DROPPED", tab["dropped_allow"], {})
    merged = {}
    for o in obls:
        k = (o.function, o.site, o.construct)
        if k not in merged or (o.status == VIOLATION):
            merged[k] = o
    n_real = 0
    for k, o in sorted(merged.items()):
        o.trivial = o.status == DISCHARGED
        rep.add(o)
        if not o.control:
            n_real += 1
        # mechanical re-check of table reasons that rest on a literal argument
        vk = "%s|%s" % (o.function, o.construct)
        if o.status == ALLOWED and vk in tab.get("dropped_verify", {}):
            idx, val = tab["dropped_verify"][vk]["const_arg"]
            ok = False
            for fn in F.find(o.function):
                call = _find_call(fn, o.site, o.construct)
                if call is None:
                    continue
                args = call.get("args", [])
                a = args[idx] if idx < len(args) else None
                while isinstance(a, dict) and a.get("k") == "icast" and "v" not in a:
                    a = a.get("e")
                if isinstance(a, dict) and a.get("v") == val and \
                        cannot_fail_with_const_arg(F, cf, call, idx, val):
                    ok = True
            rep.add(Obligation("DROPPED-VERIFY", o.function, o.construct, o.site,
                               DISCHARGED if ok else VIOLATION,
                               detail="allow-table reason re-checked: argument %d is the literal %s and "
                                      "the callee has no reachable failing return for it" % (idx, val)
                               if ok else
                               "allow-table reason no longer holds: argument %d is not the literal %s "
                               "or the callee can now fail for it" % (idx, val)))
    for s_ in stale:
        rep.note("stale DROPPED allow entry (pair no longer discards): " + s_)
    ctl_o = [o for o in merged.values() if o.control]
    rep.control("DROPPED", "dropped_dec_bad", any(o.status == VIOLATION for o in ctl_o),
                "discarded DecoderBuffer::Decode result")
    rep.control("DROPPED", "dropped_dec_ok (negative)",
                any(o.status == DISCHARGED and o.function.endswith("dropped_dec_ok") for o in ctl_o),
                "consumed result must be discharged")
    rep.floor("fallible decoder-layer call sites in Reach(decode)", n_real, tab["dropped_floor"])
    rep.extra_cov["can_fail"] = {"functions_with_status_like_return": len(cf.kind),
                                 "can_fail": len(cf.cf)}


def constdrop(ctx, rep, tab):
    F = ctx.F
    # the window fields are pointer-to-const: a write needs a const-dropping cast
    for wf in tab["window_fields"]:
        c = F.classes.get(wf["class"])
        f = None if c is None else next((x for x in c["fields"] if x["n"] == wf["field"]), None)
        if f is None:
            from ..substrate import AnalysisBroken
            raise AnalysisBroken("window field %s::%s not found" % (wf["class"], wf["field"]))
        st = DISCHARGED if f.get("ptrconst") else VIOLATION
        rep.add(Obligation("CONSTDROP", wf["class"], "field " + wf["field"], c["loc"], st,
                           detail="input window is held through a pointer-to-const (%s)" % f["t"]
                           if st == DISCHARGED else
                           "input window field %s is no longer pointer-to-const (%s)" % (wf["field"], f["t"])))
    scope = set(ctx.reach("decode"))
    ctl = [f for f in F.fns.values() if f.name.startswith("verif_control::constdrop")]
    scope |= {f.key for f in ctl}
    seen = set()
    n_real = 0
    ctl_st = {}
    for key in sorted(scope):
        fn = F.fns.get(key)
        if fn is None:
            continue
        is_ctl = fn.name.startswith("verif_control::")
        # map: cast node id -> (call node, arg index) when the cast (through
        # further casts) is an argument of a call
        arg_of = {}
        for n, b, rk, ev in fn.calls():
            for i, a in enumerate(n.get("args", [])):
                t = a
                while isinstance(t, dict) and t.get("k") in ("cast", "icast", "copy"):
                    if t.get("k") == "cast" and "i" in t:
                        arg_of[t["i"]] = (n, i)
                    t = t.get("e")
        for n, b, rk, ev in fn.nodes():
            if n.get("k") != "cast" or not n.get("dropconst"):
                continue
            site = fn.site(n.get("loc", ""))
            if (fn.base, site, n.get("to")) in seen:
                continue
            seen.add((fn.base, site, n.get("to")))
            ok, why = False, ""
            if n["i"] in arg_of:
                call, i = arg_of[n["i"]]
                pt = call.get("pt") or []
                if i < len(pt):
                    p = pt[i]
                    star = p.find("*")
                    if star > 0 and "const" in p[:star]:
                        ok = True
                        why = "result re-enters parameter %d of %s of type `%s`" % (
                            i, strip_targs(call.get("fn") or ""), p)
            st = DISCHARGED if ok else VIOLATION
            rep.add(Obligation("CONSTDROP", fn.base, "%s cast to %s" % (n.get("style"), n.get("to")),
                               site, st,
                               detail=why if ok else
                               "cast drops const from `%s` and the result does not immediately "
                               "re-enter a pointer-to-const parameter" % n.get("from"),
                               control=is_ctl))
            if is_ctl:
                ctl_st[fn.name.split("::")[-1]] = st
            else:
                n_real += 1
    rep.control("CONSTDROP", "constdrop_bad", ctl_st.get("constdrop_bad") == VIOLATION,
                "writes through a const-dropped window pointer")
    rep.control("CONSTDROP", "constdrop_ok (negative)", ctl_st.get("constdrop_ok") == DISCHARGED,
                "cast that re-enters a const parameter")
    rep.floor("const-dropping casts in Reach(decode)", n_real, tab["constdrop_floor"])


def noabort(ctx, rep, tab):
    F = ctx.F
    bad = set(tab["noabort_callees"])
    scope = set(ctx.reach("decode"))
    ctl = [f for f in F.fns.values() if f.name.startswith("verif_control::noabort")]
    scope |= F.reach(ctl)
    n_fn = 0
    fired = False
    for key in sorted(scope):
        fn = F.fns.get(key)
        if fn is None:
            continue
        n_fn += 1
        is_ctl = fn.name.startswith("verif_control::")
        for n, b, rk, ev in fn.nodes():
            k = n.get("k")
            hit = None
            if k == "call":
                base = strip_targs(n.get("fn") or "")
                if base in bad or (n.get("noreturn") and not base.startswith("std::__throw")):
                    hit = "call to %s" % base
            elif k == "throw":
                hit = "throw expression"
            if hit:
                if b not in fn.reach_all():
                    continue
                rep.add(Obligation("NOABORT", fn.base, hit, fn.site(n.get("loc", "")), VIOLATION,
                                   detail="%s on a decode path" % hit, control=is_ctl))
                fired |= is_ctl
    rep.add(Obligation("NOABORT", "Reach(decode)", "no abnormal-exit call", "-", DISCHARGED,
                       detail="%d functions scanned for calls to %s, noreturn callees and throw "
                              "expressions" % (n_fn, ", ".join(sorted(bad))), trivial=True))
    rep.control("NOABORT", "noabort_bad", fired, "abort() reachable from a fake decode entry")


def run(ctx, rep):
    tab = load_table("c02.json")
    eng = engine(ctx)
    rep.rules_text.append(
        "DROPPED(dec): every call in Reach(decode) to a draco function that can "
        "report failure (computed fixpoint) has its result consumed; RAWWIN: "
        "Advance/StartDecodingFrom amounts and (data_head, length) windows carry a "
        "G1 guard; ENUMCAST: stream value -> enum needs a constant range check or "
        "equality pin; SUBSCRIPT: stream value used as index needs G2/G3/G4; "
        "PRIMBOUND: every window dereference in the primitive readers is dominated "
        "by a comparison on the accessed offset (offset >= K for base[v-K] forms); "
        "CONSTDROP: window fields are pointer-to-const and every const-dropping "
        "cast re-enters a pointer-to-const parameter; NOABORT: no source-level "
        "abort/exit/assert/terminate/throw in Reach(decode)")
    rep.not_decided += [
        "whole-decoder memory safety resting on corner-table index invariants across functions",
        "signed-overflow freedom (guards are division-based and path-sensitive)",
        "termination; uncaught std::out_of_range from .at(); std::bad_alloc for non-declared sizes beyond C18's rules"]
    rep.trusted_base += ["clang 14 AST/CFG", "dfacts", "rules/sources.json", "rules/c02.json allow-table reasons (read and recorded)"]
    dropped_dec(ctx, rep, tab)
    allow = tab.get("taint_allow", {})
    r = run_rule(ctx, rep, "RAWWIN", S.rawwin_sinks, allow)
    check_controls(rep, "RAWWIN", r, ["rawwin_bad"], ["rawwin_ok"])
    rep.floor("RAWWIN obligations", len([o for o in r if not o.control]), 7)
    e = run_rule(ctx, rep, "ENUMCAST", S.enumcast_sinks, allow)
    check_controls(rep, "ENUMCAST", e, ["enum_bad"], ["enum_ok"])
    rep.floor("ENUMCAST obligations", len([o for o in e if not o.control]), 7)
    s = run_rule(ctx, rep, "SUBSCRIPT", S.subscript_sinks, allow)
    check_controls(rep, "SUBSCRIPT", s, ["subscript_bad"], ["subscript_ok"])
    rep.floor("SUBSCRIPT obligations", len([o for o in s if not o.control]), 12)
    wl = run_rule(ctx, rep, "WRITELEN", S.writelen_sinks, allow)
    check_controls(rep, "WRITELEN", wl, ["writelen_bad"], ["writelen_ok"])
    rep.floor("WRITELEN obligations", len([o for o in wl if not o.control]), 4)
    lb = run_rule(ctx, rep, "LOOPBOUND", S.loopbound_sinks, allow)
    check_controls(rep, "LOOPBOUND", lb, ["loop_bad", "loopiter_bad"], ["loop_ok"])
    rep.floor("LOOPBOUND obligations", len([o for o in lb if not o.control]), 18)
    prim = load_table("primitives.json")
    dec_scope = [ctx.F.fns[k] for k in ctx.reach("decode") if k in ctx.F.fns]
    dec_scope += [f for f in ctx.F.fns.values() if f.name.startswith("verif_control::prim_")]
    n = primbound.run(ctx, rep, dec_scope, "PRIMBOUND", tab["primbound_allow"],
                      set(prim["classes"]), set(prim["free_functions"]),
                      control_names=("prim_bad", "prim_ok"))
    rep.floor("PRIMBOUND dereference sites in Reach(decode)", n, tab["primbound_floor"])
    constdrop(ctx, rep, tab)
    noabort(ctx, rep, tab)
    # sanity checks whose removal is a memory-safety defect two functions later: the Edgebreaker decoder's
    # one-decoder-per-connectivity-data rule (shared rule with C03)
    from .C03 import claimonce
    claimonce(ctx, rep, eng, load_table("c03.json"))
    from ..nestbound import run_nestbound
    rep.rules_text.append("NESTBOUND: every decoder function that attaches a child to a self-owning structure (Metadata::AddSubMetadata) is dominated by a rejection `depth > constant`, where depth is a parameter or work-item field that is handed on as depth + 1")
    n_nb = run_nestbound(ctx, rep)
    rep.floor("decoder functions that attach nested children", n_nb, 1)
    # a cursor into per-attribute side tables that stalls on one path pairs the next item with the previous
    # item's (smaller) buffer: an out-of-bounds read on a valid stream (shared rule with C01 / C10)
    from ..cursor import run_cursor
    rep.rules_text.append("CURSOR (decode side): a loop-carried cursor that indexes a container inside a loop advances on every path back to the loop header")
    fns = [ctx.F.fns[k] for k in sorted(set(ctx.reach("decode"))) if k in ctx.F.fns and "/draco/" in ctx.F.fns[k].file]
    fns += [fn for fn in ctx.F.fns.values() if fn.name.startswith("verif_control::c10_cursor")]
    n_real, n_nt, ctl = run_cursor(rep, fns)
    rep.floor("CURSOR: loop-carried index uses on the decode paths", n_real, 100)
    rep.control("CURSOR", "c10_cursor_bad", ctl.get("c10_cursor_bad") is False, "stalling cursor must be reported")
