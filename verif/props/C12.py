"""C12 — explicit quantization is a function of the coordinate (partial).

NONINTERF: on the explicit-quantization path of both attribute encoders the
transform parameters are computed from options only: the branch taken when
origin and range are set reaches SetParameters with arguments that read no
attribute value, and no data-dependent range computation lies on any path
through it.  WHOWRITES: the transform's parameter fields have a closed set of
writers.
"""
from ..core import Obligation, DISCHARGED, VIOLATION, load_table
from ..facts import walk, strip_targs
from ..taint import ASSIGN_OPS
from ..cfgutil import blocks_calling, call_base
from ..substrate import AnalysisBroken

LEVEL = "other"
MUTATORS = ("::assign", "::resize", "::operator=", "::push_back", "::clear", "::swap", "::emplace_back", "::insert")


def short(n):
    return strip_targs(n.get("fn") or "").rsplit("::", 1)[-1]


def run(ctx, rep):
    F = ctx.F
    tab = load_table("c12.json")
    rep.rules_text.append(
        "NONINTERF: in both explicit-quantization sites the edge on which both "
        "option keys are set dominates a SetParameters call whose arguments "
        "contain no attribute-value read; no ComputeParameters call lies on a "
        "path through that call (neither before nor after); the sibling sites "
        "agree. WHOWRITES: min_values_/range_/quantization_bits_ are written "
        "only by the four parameter-setting methods and the constructor")
    rep.not_decided += ["that the per-value map is the stated grid origin + k*range/(2^bits-1) (arithmetic, C04)",
                        "that later coding stages are lossless (C01)"]
    rep.trusted_base += ["clang 14 AST/CFG", "dfacts", "rules/c12.json"]
    readers = set(tab["value_readers"])
    n_sites = 0
    def holder(fn, depth=0):
        """the function that holds the option tests: the site itself, or the file-local helper / lambda the
        whole parameter set-up was moved into"""
        if any(tree is not None and any(n.get("k") == "lit" and n.get("s") in tab["option_keys"] for n in walk(tree))
               for b_, k_, tree, e_ in fn.roots()):
            return fn
        if depth >= 2:
            return None
        for c, cb, rk, ev in fn.calls():
            if c.get("virt"):
                continue
            for t in F.targets(c):
                if t.is_lambda or "(anonymous namespace)" in t.name or (not t.cls and t.file == fn.file):
                    h = holder(t, depth + 1)
                    if h is not None:
                        return h
        return None
    for fb in tab["explicit_sites"]:
        for fn in F.need(fb):
            n_sites += 1
            fn = holder(fn) or fn
            tests = []

            class _T:           # a test block with the edge on which the option(s) are set as succ[0]
                def __init__(self, bid, set_target):
                    self.id, self.succ = bid, [set_target]

            def keys_direct(tree):
                ks = [n.get("s") for n in walk(tree) if n.get("k") == "lit" and n.get("s") in tab["option_keys"]]
                if ks and any(n.get("k") == "call" and short(n) == tab["option_test"] for n in walk(tree)):
                    return set(ks)
                return set()

            def helper_keys(callee):
                """keys that are certainly set when the bool helper returns true: every return that can be
                true is either the test itself (`return IsSet(k)`, conjunctions only) or dominated by the
                set-edge of a test"""
                from ..cfgutil import _strip_not as _sn
                htests = []
                for hb in callee.blocks.values():
                    if hb.cond is None or len(hb.succ) != 2:
                        continue
                    ks = keys_direct(hb.cond)
                    if not ks or any(n.get("k") == "bin" and n.get("op") == "||" for n in walk(hb.cond)):
                        continue
                    neg = isinstance(hb.cond, dict) and hb.cond.get("k") == "un" and hb.cond.get("op") == "!"
                    htests.append((hb.id, hb.succ[1] if neg else hb.succ[0], ks))
                result = None
                for rb, rev in callee.returns():
                    e = rev.get("e")
                    while isinstance(e, dict) and e.get("k") in ("icast", "cast", "copy", "paren") and "v" not in e:
                        e = e.get("e")
                    if isinstance(e, dict) and e.get("v") == 0 and e.get("k") in ("lit", "icast"):
                        continue                      # `return false`
                    ks = set()
                    for tid, tsucc, tk in htests:
                        if tsucc is not None and callee.edge_dominates((tid, tsucc), rb.id):
                            ks |= tk
                    if isinstance(e, dict) and not (e.get("k") == "lit" and e.get("v") == 1):
                        if any(n.get("k") == "bin" and n.get("op") == "||" for n in walk(e)) or \
                                (isinstance(e, dict) and e.get("k") == "un" and e.get("op") == "!"):
                            return set()
                        ks |= keys_direct(e)
                    result = ks if result is None else (result & ks)
                return result or set()

            def keys_of(tree):
                ks = keys_direct(tree)
                if ks:
                    return ks
                for n in walk(tree) if isinstance(tree, dict) else ():
                    if n.get("k") == "call" and not n.get("virt") and n.get("ret") == "bool":
                        tg = [t for t in F.targets(n) if "/draco/" in t.file]
                        if len(tg) == 1 and not tg[0].cls or (len(tg) == 1 and tg[0].is_lambda):
                            hk = helper_keys(tg[0])
                            if hk:
                                return hk
                return set()
            from ..cfgutil import _strip_not
            bool_locals = {}    # decl id -> keys tested by its initialiser (`const bool explicit = IsSet(a) && IsSet(b);`)
            for b_, ev_ in fn.events():
                if ev_["k"] == "decl" and "d" in (ev_.get("var") or {}) and isinstance(ev_.get("e"), dict):
                    ks = keys_of(ev_["e"])
                    if ks and not any(n.get("k") == "bin" and n.get("op") == "||" for n in walk(ev_["e"])):
                        bool_locals[ev_["var"]["d"]] = ks
            for b in fn.blocks.values():
                if b.cond is None or len(b.succ) != 2:
                    continue
                tree, pos = _strip_not(b.cond, True)
                keys = keys_of(b.cond)
                if not keys and isinstance(tree, dict) and tree.get("k") == "var" and tree.get("d") in bool_locals:
                    keys = bool_locals[tree["d"]]
                elif keys:
                    # `!IsSet(a)`-style early exits: the options are set on the false edge
                    pos = not (isinstance(b.cond, dict) and b.cond.get("k") == "un" and b.cond.get("op") == "!" and
                               keys_of(b.cond.get("e")))
                if keys:
                    tests.append((_T(b.id, b.succ[0] if pos else b.succ[1]), keys))
            seen_keys = set().union(*[k for _, k in tests]) if tests else set()
            if seen_keys != set(tab["option_keys"]):
                rep.add(Obligation("NONINTERF", fn.base, "explicit-parameter branch", fn.loc, VIOLATION,
                                   detail="the branch on %s being set was not found (keys seen: %s)"
                                          % (tab["option_keys"], sorted(seen_keys))))
                continue
            set_calls = [(n, b) for n, b, rk, e in fn.calls() if call_base(n) == tab["set_call"]]
            comp_blocks = blocks_calling(fn, lambda n: call_base(n) == tab["compute_call"])
            if not set_calls:
                rep.add(Obligation("NONINTERF", fn.base, "SetParameters on the explicit path", fn.loc, VIOLATION,
                                   detail="no call to SetParameters"))
                continue
            for n, sb in set_calls:
                dom_keys = set()
                for tb, ks in tests:
                    if tb.succ[0] is not None and fn.edge_dominates((tb.id, tb.succ[0]), sb):
                        dom_keys |= ks
                dom = dom_keys == set(tab["option_keys"])
                rep.add(Obligation("NONINTERF", fn.base, "SetParameters under both option tests",
                                   fn.site(n.get("loc", "")), DISCHARGED if dom else VIOLATION,
                                   detail="dominated by the true edge(s) of the tests on %s" % sorted(dom_keys) if dom else
                                   "SetParameters is not confined to the branch where origin and range are set"))
                # the explicit region (blocks only reachable when both options
                # are set) reads options and the component count only
                region = set()
                for tb, ks in tests:
                    if tb.succ[0] is None:
                        continue
                    for bb in fn.blocks:
                        if fn.edge_dominates((tb.id, tb.succ[0]), bb) and \
                                all(fn.edge_dominates((t2.id, t2.succ[0]), bb) or not
                                    fn.edge_dominates((t2.id, t2.succ[0]), sb) for t2, _ in tests):
                            region.add(bb)
                region = {bb for bb in region if all(
                    fn.edge_dominates((t2.id, t2.succ[0]), bb) for t2, _ in tests
                    if t2.succ[0] is not None and fn.edge_dominates((t2.id, t2.succ[0]), sb))}
                bad = []
                for c, cb, rk2, e2 in fn.calls():
                    if cb in region and short(c) in readers:
                        bad.append("%s at %s" % (short(c), fn.site(c.get("loc", ""))))
                for a in n.get("args", []):
                    for s_ in walk(a):
                        if s_.get("k") == "call" and short(s_) in readers:
                            bad.append(short(s_))
                rep.add(Obligation("NONINTERF", fn.base, "explicit branch reads options only",
                                   fn.site(n.get("loc", "")), VIOLATION if bad else DISCHARGED,
                                   detail="attribute values are read on the explicit-quantization branch: %s"
                                          % sorted(set(bad)) if bad else
                                   "no attribute-value reader (%s) is called in the %d blocks of the explicit "
                                   "branch nor in the SetParameters arguments" % ("/".join(sorted(readers)), len(region))))
                # no data-dependent computation on any path through the call
                loops = sorted([l for l in fn.loops() if sb in l[1]], key=lambda l: len(l[1]))
                cut = {loops[0][0]} if loops else set()
                on_path = [cb for cb in comp_blocks
                           if sb in fn.reachable(start=cb, removed_blocks=cut - {cb}) or
                           cb in fn.reachable(start=sb, removed_blocks=cut - {sb})]
                rep.add(Obligation("NONINTERF", fn.base, "no ComputeParameters on the explicit path",
                                   fn.site(n.get("loc", "")), VIOLATION if on_path else DISCHARGED,
                                   detail="ComputeParameters (data-dependent range) lies on a path through the "
                                          "explicit SetParameters call" if on_path else
                                   "the %d ComputeParameters call(s) are on the other branch only" % len(comp_blocks)))
    rep.floor("explicit-quantization sites", n_sites, len(tab["explicit_sites"]))

    oneround(ctx, rep, tab)
    freshbuf(ctx, rep, tab)

    # ---- WHOWRITES ---------------------------------------------------------------
    cls = tab["transform_class"]
    fields = set(tab["parameter_fields"])
    allowed = set(tab["allowed_writers"])
    writers = {}
    for fn in F.fns.values():
        if fn.cls != cls and not fn.name.startswith("verif_control::c12_"):
            continue
        for n, b, rk, e in fn.nodes():
            f = None
            k = n.get("k")
            if k == "bin" and n.get("op") in ASSIGN_OPS:
                t = n.get("l")
                while isinstance(t, dict) and t.get("k") in ("sub",) or (isinstance(t, dict) and t.get("k") == "call" and "obj" in t):
                    t = t.get("base") if t.get("k") == "sub" else t.get("obj")
                if isinstance(t, dict) and t.get("k") == "field" and t.get("cls") == cls:
                    f = t["n"]
            elif k == "call":
                base = strip_targs(n.get("fn") or "")
                obj = n.get("obj")
                if isinstance(obj, dict) and obj.get("k") == "field" and obj.get("cls") == cls and \
                        base.endswith(MUTATORS):
                    f = obj["n"]
                # field storage handed out as a writable buffer
                for i in n.get("outs", []):
                    args = n.get("args", [])
                    if i < len(args):
                        for s in walk(args[i]):
                            if s.get("k") == "field" and s.get("cls") == cls and s.get("n") in fields:
                                f = s["n"]
            if f in fields:
                writers.setdefault(fn.base, set()).add(f)
        for b, ev_ in fn.events():
            if ev_.get("k") == "minit" and ev_.get("field") in fields and fn.cls == cls:
                writers.setdefault(fn.base, set()).add(ev_["field"])
    if not writers:
        raise AnalysisBroken("no writer of the quantization parameters found")
    for w, fs in sorted(writers.items()):
        ok = w in allowed
        rep.add(Obligation("WHOWRITES", w, "writes %s" % ",".join(sorted(fs)), "-",
                           DISCHARGED if ok else VIOLATION,
                           detail="parameter-setting method" if ok else
                           "a new writer of the transform parameters (they are no longer a function of "
                           "SetParameters/ComputeParameters/DecodeParameters alone)"))
    rep.floor("writers of the quantization parameters", len(writers), 4)


FP_TYPES = ("float", "double", "long double")
ROUND_CALLS = ("lrint", "lrintf", "lrintl", "lround", "lroundf", "lroundl", "llrint", "llrintf", "llround", "llroundf",
               "nearbyint", "nearbyintf", "rint", "rintf")


def _is_fp_type(t):
    return (t or "").replace("const ", "").strip() in FP_TYPES


def _fp_typed(n):
    if not isinstance(n, dict):
        return False
    k = n.get("k")
    if k in ("var", "field"):
        return _is_fp_type(n.get("t"))
    if k == "call":
        return _is_fp_type(n.get("ret"))
    if k == "lit":
        return "f" in n or isinstance(n.get("v"), float)
    if k in ("icast", "cast"):
        if n.get("iw"):
            return False
        return _is_fp_type(n.get("to")) or _fp_typed(n.get("e"))
    if k in ("copy", "paren", "un"):
        return _fp_typed(n.get("e"))
    if k == "bin":
        return _fp_typed(n.get("l")) or _fp_typed(n.get("r"))
    if k == "cond":
        return _fp_typed(n.get("t")) or _fp_typed(n.get("f"))
    if k == "sub":
        return any(x in str(n.get("t") or "") for x in ("float", "double"))
    return False


def oneround(ctx, rep, tab):
    """ONEROUND: one rounding rule.  Everything reachable from the quantizing entry points converts a
    floating-point value to an integer only inside the listed functions; a second conversion site (a fast path
    with lrintf, a truncating cast) gives the same coordinate another grid vertex depending on which path the
    geometry takes."""
    F = ctx.F
    rep.rules_text.append(
        "ONEROUND: in Reach(quantizing entry points) a float->integer conversion (integer cast of a floating "
        "expression, lrint/lround family) occurs only in Quantizer::QuantizeFloat (and the generic attribute type "
        "conversion): the grid vertex of a coordinate is a function of (coordinate, origin, range, bits) alone")
    roots = []
    for r in tab["quantize_roots"]:
        roots += F.need(r)
    ctl = [f for f in F.fns.values() if f.name.startswith("verif_control::c12_round")]
    reach = set(F.reach(roots)) | set(F.reach(ctl)) if ctl else set(F.reach(roots))
    allowed = tab["rounding_allowed"]
    n_sites, fired = 0, False
    seen = set()
    for k in sorted(reach):
        fn = F.fns.get(k)
        if fn is None or ("/draco/" not in fn.file and not fn.name.startswith("verif_control::")):
            continue
        is_ctl = fn.name.startswith("verif_control::")
        for b, rk, tree, ev in fn.roots():
            if tree is None:
                continue
            for n in walk(tree):
                kk = n.get("k")
                conv = None
                if kk in ("icast", "cast") and n.get("iw") and n.get("iw") > 1 and _fp_typed(n.get("e")):
                    conv = "(%s) of a floating-point value" % n.get("to")
                elif kk == "call" and strip_targs(n.get("fn") or "").rsplit("::", 1)[-1] in ROUND_CALLS:
                    conv = strip_targs(n.get("fn") or "")
                if conv is None:
                    continue
                key = (fn.base, conv)
                if key in seen:
                    continue
                seen.add(key)
                ok = fn.base in allowed
                n_sites += 0 if is_ctl else 1
                fired |= is_ctl and not ok
                rep.add(Obligation("ONEROUND", fn.base, "float->integer: " + conv, fn.site(n.get("loc", "") or ev.get("loc", "")),
                                   DISCHARGED if ok else VIOLATION, control=is_ctl, trivial=ok,
                                   detail=allowed.get(fn.base, "") if ok else
                                   "a second float->integer conversion on the quantization path: the grid vertex a "
                                   "coordinate maps to now depends on which path the geometry takes"))
    if not any(fb in allowed for fb, _ in seen if not fb.startswith("verif_control::")):
        from ..substrate import AnalysisBroken
        raise AnalysisBroken("ONEROUND: none of the listed rounding functions %s is on the quantization paths any "
                             "more (renamed?): re-anchor rules/c12.json" % sorted(allowed))
    rep.floor("float->integer conversion sites on the quantization paths", n_sites, 1)
    rep.control("ONEROUND", "c12_round_bad", fired, "a second rounding function on the quantization path must be reported")


def freshbuf(ctx, rep, tab):
    """FRESHBUF: `GetAttributeVector` / `Options::GetVector` write only as many entries as the option stores and
    leave the rest of the caller's buffer alone.  The buffer handed to them must therefore be fresh for this
    use: declared inside the innermost loop that contains the call (value-initialised per iteration) - or, outside
    any loop, declared in the same function.  A scratch vector hoisted out of the per-attribute loop carries the
    previous attribute's origin into the dimensions the current option does not specify."""
    F = ctx.F
    rep.rules_text.append(
        "FRESHBUF: the output buffer of DracoOptions::GetAttributeVector / Options::GetVector (partial writers: they "
        "leave unspecified dimensions untouched) is a local declared in the innermost loop iteration that contains the "
        "call: no value of another attribute survives in it")
    scope = set(ctx.reach("encode"))
    n, fired = 0, False
    for fn in F.fns.values():
        is_ctl = fn.name.startswith("verif_control::c12_fresh")
        if fn.key not in scope and not is_ctl:
            continue
        loops = fn.loops()
        for c, cb, rk, ev in fn.calls():
            sh = short(c)
            if sh not in ("GetAttributeVector", "GetVector", "c12_partial_fill") or len(c.get("args") or []) < 1:
                continue
            buf = (c.get("args") or [])[-1]
            root = None
            for x in walk(buf):
                if x.get("k") == "var" and "d" in x:
                    root = x
                    break
            if root is None or "p" in root:
                continue          # the buffer is the caller's (a parameter): judged at the caller
            decl_blocks = [b.id for b, e2 in fn.events() if e2["k"] == "decl" and (e2.get("var") or {}).get("d") == root["d"]]
            inner = sorted([l for l in loops if cb in l[1]], key=lambda l: len(l[1]))
            if not decl_blocks:
                ok, why = False, "the buffer is not a local of this function"
            elif not inner:
                ok, why = True, "no enclosing loop: the buffer is declared in this function"
            else:
                ok = all(db in inner[0][1] for db in decl_blocks)
                why = "declared inside the loop iteration" if ok else \
                    "`%s` is declared outside the loop that contains the call: entries the option does not specify keep " \
                    "the previous iteration's values" % (root.get("n") or "buffer")
            n += 0 if is_ctl else 1
            fired |= is_ctl and not ok
            rep.add(Obligation("FRESHBUF", fn.base, "output buffer of " + sh, fn.site(c.get("loc", "")),
                               DISCHARGED if ok else VIOLATION, control=is_ctl, detail=why))
    rep.floor("partial-writer call sites on the encode path", n, 2)
    rep.control("FRESHBUF", "c12_fresh_bad", fired, "a scratch buffer hoisted out of the loop must be reported")
