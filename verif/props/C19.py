"""C19 — independent encoder/decoder instances can run concurrently.

NOGLOBAL (E2, whole linked library): the set of mutable static-storage
objects is exactly the inventoried I/O registries and runtime objects, and no
function reachable from an encode/decode entry point (virtual calls resolved
through vtable slots, function pointers by type) loads, stores or takes the
address of one; no thread-unsafe libc function and no thread creation is
reachable.
"""
from ..core import Obligation, DISCHARGED, VIOLATION, ALLOWED, NOTE, load_table
from ..irgraph import IRGraph
from ..substrate import AnalysisBroken

LEVEL = "other"


def entry_mangled(ctx, tab, which=("encode", "decode")):
    F = ctx.F
    ents = []
    for w in which:
        ents += [f.m for f in ctx.entry_fns(w) if f.m]
    for cn, c in F.classes.items():
        if any(cn == p or (p.endswith("<") and cn.startswith(p)) for p in tab["facade_classes"]):
            ents += [m["m"] for m in c["methods"] if m.get("m")]
    return sorted(set(ents))


def graph(ctx):
    if getattr(ctx, "_irgraph", None) is None:
        ctx._irgraph = IRGraph(ctx.sub.ir_facts())
    return ctx._irgraph


def classify(name, tab):
    """name is the demangled name of the object."""
    for e in tab["inventory"]:
        if e["match"] in name:
            return e["why"]
    return None


def run(ctx, rep):
    tab = load_table("c19.json")
    g = graph(ctx)
    rep.rules_text.append(
        "NOGLOBAL: enumerate every static-storage object of the linked library "
        "(LLVM IR of all library units, real flags); mutable ones must be in the "
        "inventory; Reach(encode+decode entry points and all methods of the "
        "facade classes) over the call graph (direct edges + vtable-slot/type "
        "resolution of virtual calls + type-matched function pointers + "
        "address-taken callbacks) must not load/store/reference any mutable "
        "object other than the benign externals; no thread-unsafe libc call, "
        "no thread creation, no thread_local")
    rep.not_decided += ["equality of results under concurrency beyond the absence of shared state "
                        "(given determinism that is the whole argument)"]
    rep.trusted_base += ["clang 14 code generation at -O0", "dreach", "call-graph over-approximation of DESIGN §2.3",
                         "malloc / libstdc++ containers being thread-safe for distinct objects",
                         "the compile database covering what ships"]
    rep.assumptions += ["inline assembly and dlopen are absent (measured: none in the IR)"]
    ents = entry_mangled(ctx, tab)
    present = [e for e in ents if g.resolve(e) in g.fns]
    if len(present) < 20:
        raise AnalysisBroken("only %d entry functions found in the IR" % len(present))
    reach = g.reach(present)
    rep.floor("functions reachable from the entry points (coarse graph)", len(reach), tab["reach_floor"])
    mutable = {n: gl for n, gl in g.globals.items() if not gl["const"]}
    touched = {}
    for n in reach:
        f = g.fns.get(n)
        if not f:
            continue
        for k in ("gload", "gstore", "gref"):
            for x in f.get(k, []):
                if x in mutable:
                    touched.setdefault(x, (n, k))
    dm = g.demangle(list(mutable) + [v[0] for v in touched.values()])
    n_inv = 0
    for name, gl in sorted(mutable.items()):
        is_ctl = "verif_control" in name
        why = classify(dm.get(name, name), tab)
        ben = tab["benign_externals"].get(name)
        if name in touched:
            fn, kind = touched[name]
            if ben:
                rep.add(Obligation("NOGLOBAL", dm.get(name, name), "benign external", gl.get("loc", "-"), ALLOWED,
                                   detail="referenced from %s" % dm.get(fn, fn), by=ben, trivial=True))
                continue
            path = [dm.get(p, p) for p in g.demangle(g.path_to(fn)).values()]
            rep.add(Obligation("NOGLOBAL", dm.get(name, name), "mutable static object on a codec path",
                               gl.get("loc", "-"), VIOLATION,
                               detail="%s by %s, reachable from an entry point" % (
                                   {"gload": "loaded", "gstore": "stored", "gref": "address taken"}[kind],
                                   dm.get(fn, fn)),
                               control=is_ctl, extra={"path": " -> ".join(path[-8:])}))
            continue
        if why or ben:
            n_inv += 1
            rep.add(Obligation("NOGLOBAL", dm.get(name, name), "inventoried, unreachable", gl.get("loc", "-"),
                               DISCHARGED, detail="mutable static-storage object not referenced from any "
                               "function reachable from the entry points", by=why or ben,
                               trivial=name.startswith("_ZStL8__ioinit"), control=is_ctl))
        else:
            rep.add(Obligation("NOGLOBAL", dm.get(name, name), "new mutable object (not inventoried)",
                               gl.get("loc", "-"), NOTE,
                               detail="mutable static-storage object outside the inventory; not reachable from "
                                      "the codec entry points, so not a violation of 'these paths'",
                               control=is_ctl))
    rep.floor("inventoried mutable objects", n_inv, tab["mutable_floor"])
    tls = [n for n, gl in g.globals.items() if gl.get("tls")]
    rep.add(Obligation("NOGLOBAL", "thread_local", "none", "-", DISCHARGED if not tls else NOTE,
                       detail="%d thread_local objects in the library" % len(tls), trivial=True))
    ext = {n for n in reach if g.fns.get(n, {}).get("decl")}
    bad = sorted((set(tab["thread_unsafe_libc"]) | set(tab["thread_creation"])) & ext)
    for b in bad:
        path = " -> ".join(g.demangle(g.path_to(b)).values())
        rep.add(Obligation("NOGLOBAL", b, "thread-unsafe libc / thread creation", "-", VIOLATION,
                           detail="reachable from an entry point", extra={"path": path}))
    rep.add(Obligation("NOGLOBAL", "Reach(entry points)", "external call surface", "-", DISCHARGED,
                       detail="%d external functions reachable; none of the %d thread-unsafe / thread-creating "
                              "ones" % (len(ext), len(tab["thread_unsafe_libc"]) + len(tab["thread_creation"])),
                       extra={"externals": sorted(x for x in ext if not x.startswith(("_ZNS", "_ZNKS", "llvm.")))[:60]}))
    # positive control: a fake entry that reaches a function-local static
    cents = [n for n in g.fns if "verif_control9c19_entry" in n]
    creach = g.reach(cents)
    fired = False
    for n in creach:
        f = g.fns.get(n, {})
        for k in ("gload", "gstore", "gref"):
            if any("verif_control" in x and x in mutable for x in f.get(k, [])):
                fired = True
    rep.control("NOGLOBAL", "c19_entry (function-local static cache)", fired and bool(cents),
                "mutable function-local static reached from a fake entry must be found")
    rep.extra_cov["e2"] = {"ir_functions": len(g.fns), "reachable": len(reach), "entry_functions": len(present),
                           "static_storage_objects": len(g.globals), "mutable": len(mutable),
                           "virtual_call_sites": g.n_virtual_sites, "other_indirect_call_sites": g.n_indirect_sites,
                           "vtables": len(g.vtables)}
