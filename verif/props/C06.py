"""C06 — encoding and decoding are deterministic functions of their inputs
(partial).  NONDET: no nondeterminism source reachable from the codec entry
points (clock, rand, env, locale, pid/tid; pointer values used as data;
iteration over pointer-keyed associative containers).  FACADE: the facade
objects keep no per-run state except options and the reported counts; worker
objects are per call.  NOGLOBAL (shared with C19): no state outlives a call.
"""
import os

from ..core import Obligation, DISCHARGED, VIOLATION, ALLOWED, NOTE, load_table
from ..facts import walk, strip_targs
from ..substrate import REPO, AnalysisBroken
from .C19 import graph, entry_mangled
from ..taint import ASSIGN_OPS

LEVEL = "other"

PTR_KEYED = ("std::unordered_map<", "std::unordered_set<", "std::map<", "std::set<",
             "std::unordered_multimap<", "std::multimap<", "std::multiset<")


def first_targ(t):
    i = t.find("<")
    depth, j = 0, i + 1
    while j < len(t):
        c = t[j]
        if c == "<":
            depth += 1
        elif c == ">":
            if depth == 0:
                break
            depth -= 1
        elif c == "," and depth == 0:
            break
        j += 1
    return t[i + 1:j]


def run(ctx, rep):
    F = ctx.F
    tab = load_table("c19.json")
    ftab = load_table("c06.json")
    g = graph(ctx)
    rep.rules_text.append(
        "NONDET (E2): no call to a clock / random / environment / locale / "
        "pid-tid function in Reach(encode+decode); in draco source functions of "
        "Reach no ptrtoint that escapes a pointer difference and no ordered "
        "pointer comparison outside the allow-listed bounds checks; (E1) no "
        "iteration over an associative container keyed by a raw pointer. "
        "FACADE (E1): methods of the facade classes write only the allow-listed "
        "fields, construct workers only into locals, and no facade class has a "
        "field holding a worker")
    rep.not_decided += ["reads of uninitialised memory", "independence from trailing bytes; exact consumption",
                        "floating-point determinism across compilers / FPU modes"]
    rep.trusted_base += ["clang 14 code generation at -O0", "dreach", "dfacts", "rules/c19.json, rules/c06.json"]

    ents = entry_mangled(ctx, tab)
    present = [e for e in ents if g.resolve(e) in g.fns]
    reach = g.reach(present)
    rep.floor("functions reachable from the entry points (coarse graph)", len(reach), tab["reach_floor"])
    ext = {n for n in reach if g.fns.get(n, {}).get("decl")}
    bad = sorted(set(tab["nondet_callees"]) & ext)
    for b in bad:
        path = " -> ".join(g.demangle(g.path_to(b)).values())
        rep.add(Obligation("NONDET", b, "nondeterminism source", "-", VIOLATION,
                           detail="reachable from a codec entry point", extra={"path": path[-900:]}))
    rep.add(Obligation("NONDET", "Reach(entry points)", "external call surface", "-", DISCHARGED,
                       detail="%d external functions reachable, none of the %d clock/random/env/locale/id sources"
                              % (len(ext), len(tab["nondet_callees"])),
                       extra={"in_library_but_unreachable": sorted(set(tab["nondet_callees"]) & set(g.fns))}))
    # pointer values as data, in draco source functions
    src_root = os.path.join(REPO, "src") + "/"
    names = [n for n in reach if (g.fns.get(n, {}).get("p2i") or g.fns.get(n, {}).get("pcmp"))
             and any(l.startswith(src_root) for l in g.fns[n].get("ploc", []))]
    dm = g.demangle(names)
    n_ptr = 0
    for n in sorted(names):
        f = g.fns[n]
        locs = [l for l in f.get("ploc", []) if l.startswith(src_root)]
        d = dm.get(n, n)
        base = strip_targs(d.split("(")[0])
        n_ptr += 1
        why = tab["pointer_as_data_allow"].get(base)
        rep.add(Obligation("NONDET", base, "pointer value used in arithmetic/ordering", locs[0] if locs else "-",
                           ALLOWED if why else VIOLATION,
                           detail="%d escaping ptrtoint, %d ordered pointer comparisons in draco source lines %s"
                                  % (f.get("p2i", 0), f.get("pcmp", 0), locs[:3]), by=why or ""))
    # E1: iteration over pointer-keyed associative containers
    scope = set(ctx.reach("encode")) | set(ctx.reach("decode"))
    ctl = [f for f in F.fns.values() if f.name.startswith("verif_control::c06_")]
    scope |= {f.key for f in ctl}
    n_iter = 0
    fired_iter = False
    for key in sorted(scope):
        fn = F.fns.get(key)
        if fn is None:
            continue
        for n, b, rk, e in fn.calls():
            base = n.get("fn") or ""
            if not base.startswith(PTR_KEYED) or not strip_targs(base).endswith(("::begin", "::cbegin")):
                continue
            n_iter += 1
            k0 = first_targ(n.get("objt") or base)
            is_ctl = fn.name.startswith("verif_control::")
            if "*" in k0:
                rep.add(Obligation("NONDET", fn.base, "iteration over pointer-keyed container",
                                   fn.site(n.get("loc", "")), VIOLATION,
                                   detail="iterates %s keyed by `%s`: order depends on addresses" % (
                                       strip_targs(n.get("objt") or ""), k0), control=is_ctl))
                fired_iter |= is_ctl
    rep.add(Obligation("NONDET", "Reach(E1)", "associative-container iterations", "-", DISCHARGED,
                       detail="%d begin() calls on associative containers inspected; none keyed by a raw pointer"
                              % n_iter, trivial=True))
    # controls for E2 sub-rules
    for cname, what in (("c06_clock_entry", "time"), ):
        cents = [n for n in g.fns if "verif_control" in n and cname in n]
        cr = g.reach(cents)
        rep.control("NONDET", cname, bool(cents) and what in cr, "time() reachable from a fake entry must be found")
    pn = [n for n in g.fns if "verif_control" in n and "c06_ptr_entry" in n]
    rep.control("NONDET", "c06_ptr_entry", bool(pn) and any(g.fns[n].get("p2i") for n in pn),
                "escaping ptrtoint must be found")
    rep.control("NONDET", "c06_ptrkey_entry", fired_iter, "iteration over unordered_map<const int*, int> must be found")

    # ---- FACADE ------------------------------------------------------------
    n_f = 0
    for cn, c in sorted(F.classes.items()):
        if not any(cn == p or (p.endswith("<") and cn.startswith(p)) for p in ftab["facade_classes"]):
            continue
        for fld in c["fields"]:
            t = fld["t"]
            holds_worker = any(w in t for w in ftab["worker_type_markers"]) and "Options" not in t
            n_f += 1
            rep.add(Obligation("FACADE", cn, "field " + fld["n"], c["loc"],
                               VIOLATION if holds_worker else DISCHARGED,
                               detail="facade field of type `%s` %s" % (
                                   t[:90], "keeps a worker object across calls" if holds_worker
                                   else "holds no worker object"), trivial=not holds_worker))
        for fn in F.fns.values():
            if fn.cls != cn:
                continue
            for n, b, rk, e in fn.nodes():
                tgt = None
                if n.get("k") == "bin" and n.get("op") in ASSIGN_OPS:
                    tgt = n.get("l")
                elif n.get("k") == "call" and n.get("opcall") and "obj" in n and \
                        strip_targs(n.get("fn") or "").rsplit("::", 1)[-1].startswith("operator=") :
                    tgt = n.get("obj")
                if not isinstance(tgt, dict) or tgt.get("k") != "field" or not tgt.get("this"):
                    continue
                n_f += 1
                ok = tgt["n"] in ftab["writable_fields"]
                rep.add(Obligation("FACADE", fn.base, "write to " + tgt["n"], fn.site(n.get("loc", "")),
                                   DISCHARGED if ok else VIOLATION,
                                   detail="facade method writes member %s (%s)" % (
                                       tgt["n"], "options / reported counts" if ok else
                                       "per-run state kept in the facade object")))
            # workers constructed into locals only
            for n, b, rk, e in fn.nodes():
                if n.get("k") != "new":
                    continue
                t = n.get("t", "")
                if not any(w in t for w in ftab["worker_type_markers"]):
                    continue
                n_f += 1
                rep.add(Obligation("FACADE", fn.base, "constructs " + strip_targs(t), fn.site(n.get("loc", "")),
                                   DISCHARGED, detail="worker constructed inside the call (facade classes have no "
                                   "worker-typed field to keep it in)", trivial=True))
    rep.floor("facade obligations", n_f, ftab["facade_floor"])
    reset_rule(ctx, rep, ftab)
    uninit_rule(ctx, rep)
    callerstate_rule(ctx, rep, ftab)
    # "decoding is unaffected by bytes that follow the stream": every rejection that compares a stream count
    # with the *remaining input* depends on trailing bytes unless the bound can never fire for a valid stream,
    # i.e. unless each item really consumes what the guard assumes (shared rule with C01)
    from .C01 import g1justify
    rep.rules_text.append(
        "G1JUSTIFY: an input-relative count guard `count > remaining / k` (any k != 1, also fractions such as one "
        "bit per item) is backed by a per-item consumption of at least k bytes in everything it dominates; "
        "otherwise a valid stream is rejected or accepted depending on the bytes that follow it")
    g1justify(ctx, rep, floor=10)
    rep.extra_cov["e2"] = {"ir_functions": len(g.fns), "reachable": len(reach), "entry_functions": len(present),
                           "pointer_as_data_functions_in_draco_sources": n_ptr}


def reset_rule(ctx, rep, ftab):
    """RESET: per-run state of reusable worker objects (see verif/reset.py)."""
    from ..reset import Run
    F = ctx.F
    rep.rules_text.append(
        "RESET (E1): for every class of the reusable encoder-worker hierarchy (PointCloudEncoder and subclasses, "
        "entry Encode) a member that the run mutates and reads is re-initialised (assigned / cleared / reset) on "
        "every path of the run that reaches a success return - interprocedural must-pass over the methods called "
        "on `this`, virtual calls resolved per class; a member that is only conditionally re-created keeps the "
        "previous run's object")
    roots = list(ftab["reset_roots"]) + [{"root": "verif_control::c06_ResetRoot", "entry": "Run"}]
    seen = {}
    n_real = 0
    for r in roots:
        is_ctl = r["root"].startswith("verif_control::")
        if r["root"] not in F.classes:
            rep.broken("RESET: root class %s not found" % r["root"])
            continue
        for k in [r["root"]] + sorted(F.all_subclasses(r["root"])):
            run = Run(F, k, r["entry"])
            if run.entry is None:
                continue
            for f, v in sorted(run.analyse().items()):
                key = (f, is_ctl)
                if v.get("reset_after_use") and v["read_in"]:
                    st, det = VIOLATION, ("%s::%s is cleared by %s only after the run has already used it: a run that fails "
                                          "before the clean-up leaves its state to the next run on the same object (as "
                                          "class %s)" % (f[0], f[1], run.entry.base, k))
                elif v["reset"]:
                    st, det = DISCHARGED, "re-initialised on every successful run"
                elif not v["read_in"]:
                    st, det = DISCHARGED, "written on some paths only, but no method of the run reads it (cannot influence the output)"
                else:
                    st, det = VIOLATION, ("%s::%s is mutated during a run (%s) and read (%s) but is not re-initialised on "
                                          "every path of %s that reaches a success return: a second run on the same object "
                                          "can depend on the first (as class %s)" % (
                                              f[0], f[1], ", ".join(x.split("::")[-1] for x in v["mutated_in"][:3]),
                                              ", ".join(x.split("::")[-1] for x in v["read_in"][:3]), run.entry.base, k))
                prev = seen.get(key)
                if prev is not None and (prev.status == VIOLATION or st != VIOLATION):
                    continue
                o = Obligation("RESET", "%s::%s" % f, "per-run member", F.classes[f[0]]["loc"] if f[0] in F.classes else "-",
                               st, detail=det, control=is_ctl)
                seen[key] = o
    for (f, is_ctl), o in sorted(seen.items(), key=lambda kv: (kv[0][1], kv[0][0])):
        rep.add(o)
        n_real += 0 if is_ctl else 1
    ctl = {f[0][0].split("::")[-1] + "." + f[0][1]: o.status for f, o in seen.items() if f[1]}
    rep.control("RESET", "c06_ResetBad.worker_", ctl.get("c06_ResetBad.worker_") == VIOLATION,
                "conditionally re-created worker must be reported")
    rep.control("RESET", "c06_ResetOk.worker_ (negative)", ctl.get("c06_ResetOk.worker_") == DISCHARGED,
                "reset-then-create must be discharged")
    rep.floor("RESET: per-run members of the encoder-worker hierarchy", n_real, ftab["reset_floor"])


def uninit_rule(ctx, rep):
    """UNINIT: see verif/uninit.py"""
    from ..uninit import check_fn
    F = ctx.F
    rep.rules_text.append(
        "UNINIT (E1): every uninitialised scalar heap array (`new T[n]` without value-initialisation) held by a "
        "local in Reach(encode+decode) is completely written - by a fill callee (GetValue, ConvertValue, memcpy, "
        "...), by a draco callee whose body fills its parameter in a loop without leaving early, or by element "
        "stores in a loop bounded by the allocation's own size - before any use that can read it")
    scope = set(ctx.reach("encode")) | set(ctx.reach("decode"))
    fns = [F.fns[k] for k in sorted(scope) if k in F.fns and "/draco/" in F.fns[k].file]
    fns += [f for f in F.fns.values() if f.name.startswith("verif_control::c06_uninit")]
    seen, n, ctl = set(), 0, {}
    for fn in fns:
        is_ctl = fn.name.startswith("verif_control::")
        for name, site, ok, det in check_fn(F, fn):
            key = (fn.base, name, site)
            if key in seen:
                continue
            seen.add(key)
            rep.add(Obligation("UNINIT", fn.base, "new[] held by " + str(name), site,
                               DISCHARGED if ok else VIOLATION, detail=det, control=is_ctl))
            if is_ctl:
                ctl[fn.name.split("::")[-1]] = ok
            else:
                n += 1
    rep.floor("UNINIT: uninitialised scalar heap arrays on the codec paths", n, 0)
    rep.control("UNINIT", "c06_uninit_bad", ctl.get("c06_uninit_bad") is False, "partially filled scratch array must be reported")
    rep.control("UNINIT", "c06_uninit_ok (negative)", ctl.get("c06_uninit_ok") is True, "loop-filled array must be discharged")


def callerstate_rule(ctx, rep, ftab):
    """CALLERSTATE: state that lives in an object the *caller* hands in and may reuse (the DecoderBuffer keeps the
    bitstream version of the previous decode across Init()) is written before it is read: in the decode root no
    call of the getter, and no callee that reaches the getter, runs before the setter call."""
    F = ctx.F
    rep.rules_text.append(
        "CALLERSTATE: DecoderBuffer::Init keeps the bitstream version of the previous decode, so in "
        "PointCloudDecoder::Decode every read of DecoderBuffer::bitstream_version (directly or through a callee) "
        "is dominated by the set_bitstream_version call that installs the header's version; otherwise the outcome "
        "depends on what the buffer object decoded before")
    n = 0
    fired = False
    cg = F.callgraph()
    for ent in ftab.get("caller_state", []):
        getters = {f.key for f in F.find(ent["getter"])}
        if not getters:
            raise AnalysisBroken("CALLERSTATE: getter %s not found" % ent["getter"])
        # functions that can reach the getter
        rev = {}
        for k, outs in cg.items():
            for o in outs:
                rev.setdefault(o, set()).add(k)
        can = set(getters)
        stack = list(getters)
        while stack:
            x = stack.pop()
            for c in rev.get(x, ()):
                if c not in can:
                    can.add(c)
                    stack.append(c)
        roots = list(F.need(ent["root"])) + [f for f in F.fns.values() if f.name.startswith("verif_control::c06_callerstate")]
        for fn in roots:
            is_ctl = fn.name.startswith("verif_control::")
            setb = [b for c, b, rk, ev in fn.calls() if strip_targs(c.get("fn") or "") == ent["setter"]]
            helper_set = set()
            if not setb:
                # the installation of the version moved into a helper of the same class / file: the call of that
                # helper is the point from which the version is set, provided the helper itself does not read
                # the version before it sets it
                for c, b, rk, ev in fn.calls():
                    for t in F.targets(c):
                        same = (t.cls and fn.cls and strip_targs(t.cls) == strip_targs(fn.cls)) or t.is_lambda or \
                               "(anonymous namespace)" in t.name
                        if not same:
                            continue
                        hs = [hb for hc, hb, hrk, hev in t.calls() if strip_targs(hc.get("fn") or "") == ent["setter"]]
                        if not hs:
                            continue
                        early = [hc for hc, hb, hrk, hev in t.calls()
                                 if (strip_targs(hc.get("fn") or "") == ent["getter"] or
                                     any(x.key in can for x in F.targets(hc))) and
                                 not any(t.block_dominates(sb, hb) and sb != hb for sb in hs) and
                                 strip_targs(hc.get("fn") or "") != ent["setter"] and hb not in hs]
                        if not early:
                            setb.append(b)
                            helper_set.add(strip_targs(c.get("fn") or ""))
            if not setb:
                rep.add(Obligation("CALLERSTATE", fn.base, "installs the header's version", fn.loc, VIOLATION,
                                   control=is_ctl, detail="no call of %s" % ent["setter"]))
                fired |= is_ctl
                continue
            bad = []
            calls_by_block = {}
            for c, b, rk, ev in fn.calls():
                calls_by_block.setdefault(b, []).append(c)
            for b, cs in calls_by_block.items():
                for c in sorted(cs, key=lambda x: x.get("i", 0)):
                    base = strip_targs(c.get("fn") or "")
                    if base == ent["setter"] or base in helper_set:
                        break           # later calls in this block run after the setter
                    if any(fn.block_dominates(sb, b) and sb != b for sb in setb):
                        continue
                    if b in setb and False:
                        continue
                    tg = F.targets(c)
                    if base == ent["getter"] or any(t.key in can for t in tg):
                        bad.append("%s at %s" % (base.replace("draco::", ""), fn.site(c.get("loc", ""))))
            n += 0 if is_ctl else 1
            fired |= is_ctl and bool(bad)
            rep.add(Obligation("CALLERSTATE", fn.base, "no read of the buffer's version before it is set", fn.loc,
                               VIOLATION if bad else DISCHARGED, control=is_ctl,
                               detail="the version left in the caller's DecoderBuffer by an earlier decode is read "
                               "before this decode sets it: %s" % "; ".join(sorted(set(bad))[:4]) if bad else
                               "every call that can reach %s is dominated by %s" % (
                                   ent["getter"].replace("draco::", ""), ent["setter"].replace("draco::", ""))))
    rep.floor("caller-state roots", n, 1)
    rep.control("CALLERSTATE", "c06_callerstate_bad", fired, "a read of the stale version before the set must be reported")
