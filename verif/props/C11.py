"""C11 — geometry and attribute metadata survive the round trip (partial).

DROPPED(enc): no failure inside the metadata encoder (or on the way from it to
the encode entry point) is swallowed.  NARROWLEN: a length written through a
narrowing cast is guarded against the narrow type's range first.  REJECTDOM:
every value domain the metadata decoder rejects that is not input-relative is
pre-rejected (or excluded by construction) on the writer side - the inventory
of such rejections is closed.
"""
from ..core import Obligation, DISCHARGED, VIOLATION, ALLOWED, NOTE, load_table
from ..facts import walk, strip_targs
from ..taint import NEG
from ..dropped import CanFail, find_sites
from ..cfgutil import dominating_edges, _strip_not, classify_return
from ..taint import _tree_eq, FLIP
from ..primbound import _atoms, _const
from ..taintcheck import engine
from .C09 import root_var, same_obj

LEVEL = "other"


def _is_error_block(fn, bid, depth=0):
    """Block that (possibly through empty blocks) ends in a failing return."""
    b = fn.blocks.get(bid)
    if b is None or depth > 3:
        return False
    for ev in b.ev:
        if ev["k"] == "ret":
            return classify_return(fn, b, ev) == "fail"
        if ev["k"] in ("expr", "decl") and not ev.get("iscond"):
            return False
    s = [x for x in b.succ if x is not None]
    return len(s) == 1 and b.cond is None and _is_error_block(fn, s[0], depth + 1)


def run(ctx, rep):
    F = ctx.F
    tab = load_table("c11.json")
    rep.rules_text.append(
        "DROPPED(enc) over MetadataEncoder and its callers; NARROWLEN: an "
        "explicit cast of a size()/length() to an integer of <= 16 bits that is "
        "written to the stream is dominated by a comparison bounding the length "
        "by the narrow type's maximum; REJECTDOM: the set of reader-side "
        "rejections in MetadataDecoder that compare with a constant or rest on a "
        "non-stream callee is closed and each has a writer-side counterpart; "
        "G1JUSTIFY: an input-relative count rejection `count > remaining/k` is "
        "backed by >= k bytes consumed per item in every loop it dominates")
    rep.not_decided += ["byte-exactness of values, preservation of nesting and order (value-level)",
                        "equality of writer/reader wire formats beyond the length-field domains"]
    rep.trusted_base += ["clang 14 AST/CFG", "dfacts", "rules/c11.json"]

    # ---- DROPPED(enc) ------------------------------------------------------
    cf = CanFail(F)
    enc_cls = tab["encoder_class"]
    scope = set()
    for fn in F.fns.values():
        if fn.cls == enc_cls or fn.name.startswith("verif_control::c11_"):
            scope.add(fn.key)
        else:
            for n, b, rk, ev in fn.calls():
                if strip_targs(n.get("fn") or "").startswith(enc_cls + "::"):
                    scope.add(fn.key)
                    break

    def filt(cb, n):
        return cb.startswith(enc_cls + "::")
    obls, stale = find_sites(F, scope, cf, filt, "DROPPED", tab.get("dropped_allow", {}), {})
    n_real = 0
    seen = set()
    for o in obls:
        k = (o.function, o.site, o.construct)
        if k in seen:
            continue
        seen.add(k)
        rep.add(o)
        n_real += 0 if o.control else 1
    rep.floor("fallible MetadataEncoder call sites", n_real, tab["dropped_floor"])
    ctl = [o for o in obls if o.control]
    rep.control("DROPPED", "c11_dropped_bad", any(o.status == VIOLATION for o in ctl),
                "nested metadata encode result discarded")

    # ---- NARROWLEN ---------------------------------------------------------
    n_narrow = 0
    ctl_fired = False
    for fn in F.fns.values():
        is_ctl = fn.name.startswith("verif_control::c11_")
        if fn.cls != enc_cls and not is_ctl:
            continue
        for n, b, rk, ev in fn.nodes():
            if n.get("k") != "cast" or n.get("iw", 64) > 16:
                continue
            size_calls = [s for s in walk(n.get("e")) if s.get("k") == "call" and
                          strip_targs(s.get("fn") or "").endswith(("::size", "::length"))]
            len_var = None
            if not size_calls:
                # the length cached in a local first: `const size_t length = str.size();`
                v = n.get("e")
                while isinstance(v, dict) and v.get("k") in ("icast", "cast", "copy"):
                    v = v.get("e")
                if isinstance(v, dict) and v.get("k") == "var" and "d" in v:
                    for b2, ev2 in fn.events():
                        if ev2["k"] == "decl" and (ev2.get("var") or {}).get("d") == v["d"] and isinstance(ev2.get("e"), dict):
                            size_calls = [s for s in walk(ev2["e"]) if s.get("k") == "call" and
                                          strip_targs(s.get("fn") or "").endswith(("::size", "::length"))]
                            if size_calls:
                                len_var = v["d"]
            if not size_calls:
                continue
            sc = size_calls[0]
            limit = (1 << n["iw"]) - 1
            why = None
            for cb, oc, cond in dominating_edges(fn, b):
                if isinstance(oc, tuple):
                    continue
                for l, op, r in _atoms(cond, oc):
                    for side, other, o in ((l, r, op), (r, l, FLIP[op])):
                        c = _const(other)
                        if c is None or not isinstance(side, dict):
                            continue
                        hit = any(s.get("k") == "call" and s.get("m") == sc.get("m") and
                                  same_obj(root_var(s.get("obj")), root_var(sc.get("obj")))
                                  for s in walk(side)) or \
                            (len_var is not None and any(s.get("k") == "var" and s.get("d") == len_var
                                                         for s in walk(side)))
                        if not hit:
                            continue
                        if (o == "<=" and c <= limit) or (o == "<" and c <= limit + 1) or \
                                (o == "==" and c <= limit):
                            why = "`%s` (%s edge) at %s" % (cb.condsrc, "true" if oc else "false",
                                                            fn.site(cb.tloc or ""))
            st = DISCHARGED if why else VIOLATION
            rep.add(Obligation("NARROWLEN", fn.base, "cast of %s to %d-bit" % (
                strip_targs(sc.get("fn") or ""), n["iw"]), fn.site(n.get("loc", "")), st,
                detail="length narrowed to %d bits is bounded by %d first" % (n["iw"], limit) if why else
                "length is narrowed to %d bits with no dominating comparison against %d"
                % (n["iw"], limit), by=why or "", control=is_ctl))
            if is_ctl:
                ctl_fired |= st == VIOLATION
            else:
                n_narrow += 1
    rep.floor("narrowing length casts in the metadata encoder", n_narrow, tab["narrow_floor"])
    rep.control("NARROWLEN", "c11_narrow_bad", ctl_fired, "uint8 length written without a range check")

    # ---- REJECTDOM -----------------------------------------------------------
    eng = engine(ctx)
    dec_cls = tab["decoder_class"]
    listed = {(r["fn"], r["kind"], r["what"]): r for r in tab["reader_rejections"]}
    found = set()
    for fn in F.fns.values():
        if fn.cls != dec_cls:
            continue
        for b in fn.blocks.values():
            if b.cond is None or len(b.succ) != 2 or b.id not in fn.reach_all():
                continue
            for oc in (True, False):
                fail_succ = b.succ[0] if oc else b.succ[1]
                if fail_succ is None or not _is_error_block(fn, fail_succ):
                    continue
                tree, pos = _strip_not(b.cond, oc)
                kind = what = None
                if isinstance(tree, dict) and tree.get("k") == "call" and not pos and \
                        not tree.get("opcall"):
                    # failure of a callee: input-relative iff the callee reads the stream
                    if eng.call_reads_stream(tree):
                        continue
                    kind, what = "callee", strip_targs(tree.get("fn") or "")
                else:
                    ats = _atoms(b.cond, oc)
                    # `if (!size_ok(n, buffer)) return false;` - a bool validation helper (function or lambda):
                    # judge the comparisons inside it (hoisting a check into a helper must not change the verdict)
                    if isinstance(tree, dict) and tree.get("k") == "call" and pos is False:
                        tg = [t_ for t_ in F.targets(tree) if t_.ret.get("t") == "bool"]
                        if tg and not eng.call_reads_stream(tree):
                            ats = []
                            for t_ in tg:
                                rets = [ev_.get("e") for b_, ev_ in t_.returns()]
                                for e_ in rets:        # `return a <= b;`
                                    if isinstance(e_, dict) and e_.get("k") != "lit":
                                        ats += [(l, NEG[op], r) for l, op, r in _atoms(e_, True)]
                                for hb in t_.blocks.values():   # `if (a > b) return false;`
                                    if hb.cond is None or len(hb.succ) != 2:
                                        continue
                                    for hoc in (True, False):
                                        hs = hb.succ[0] if hoc else hb.succ[1]
                                        if hs is not None and _is_error_block(t_, hs):
                                            ats += _atoms(hb.cond, hoc)
                            ats = [(l, op, r) for l, op, r in ats
                                   if not any(n_.get("k") == "call" and
                                              strip_targs(n_.get("fn") or "").endswith("remaining_size")
                                              for x_ in (l, r) if isinstance(x_, dict) for n_ in walk(x_))]
                    for l, op, r in ats:
                        for side, other, o in ((l, r, op), (r, l, FLIP[op])):
                            c = _const(other)
                            if c is None or not isinstance(side, dict):
                                continue
                            sd = side
                            while sd.get("k") in ("icast", "cast", "copy") and isinstance(sd.get("e"), dict):
                                sd = sd["e"]
                            t = sd.get("t", "") or ""
                            if "*" in t or sd.get("null") or other.get("null"):
                                continue          # null-pointer argument checks
                            name = sd.get("n") or sd.get("k")
                            kind, what = "constant", "%s %s %s" % (name, o, c)
                if kind is None:
                    continue
                key = (fn.base, kind, what)
                if key in found:
                    continue
                found.add(key)
                site = fn.site(b.tloc or "")
                if key not in listed and kind == "constant":
                    # the same rejection under another local name / in a helper of the same class (`const int
                    # depth = mp.level; if (depth > kMax)`): entries are matched by comparison and constant
                    tail = what.split(" ", 1)[1] if " " in what else what
                    for k2 in listed:
                        if k2[1] == "constant" and " " in k2[2] and k2[2].split(" ", 1)[1] == tail:
                            found.add(k2)
                            key = k2
                            break
                if key in listed:
                    r = listed[key]
                    if r.get("fails_on_fields") is not None:
                        # the reason is about what the callee's failure depends on: re-verify it - every
                        # condition of the callee that leads to a failing return consults only these members
                        extra_f = set()
                        for t_ in F.find(r["what"]):
                            for hb in t_.blocks.values():
                                if hb.cond is None or len(hb.succ) != 2:
                                    continue
                                if any(hs is not None and _is_error_block(t_, hs) for hs in hb.succ):
                                    used = set()
                                    for x in walk(hb.cond):
                                        if x.get("k") == "field" and x.get("this"):
                                            used.add(x.get("n"))
                                        if x.get("k") == "var" and "d" in x:
                                            for b2, ev2 in t_.events():
                                                if ev2["k"] == "decl" and (ev2.get("var") or {}).get("d") == x["d"] and \
                                                        isinstance(ev2.get("e"), dict):
                                                    used |= {y.get("n") for y in walk(ev2["e"])
                                                             if y.get("k") == "field" and y.get("this")}
                                    extra_f |= used - set(r["fails_on_fields"])
                        if extra_f:
                            rep.add(Obligation("REJECTDOM", fn.base, "%s: %s" % (kind, what), site, VIOLATION,
                                               detail="the reader fails when %s fails, and that callee's failure now also "
                                                      "depends on %s (recorded reason: %s)" % (
                                                          what, sorted(extra_f), r["writer_side"][:120])))
                            continue
                    st = NOTE if r.get("outside_domain") else ALLOWED
                    rep.add(Obligation("REJECTDOM", fn.base, "%s: %s" % (kind, what), site, st,
                                       detail="reader rejects `%s`" % b.condsrc,
                                       by=r["writer_side"]))
                else:
                    rep.add(Obligation("REJECTDOM", fn.base, "%s: %s" % (kind, what), site, VIOLATION,
                                       detail="reader rejects `%s`: a value domain that is not "
                                              "input-relative and that the writer does not pre-reject "
                                              "(an accepted encode can become undecodable)" % b.condsrc))
    for key in listed:
        if key not in found:
            rep.note("stale REJECTDOM table entry (rejection no longer present): %s" % (key,))
    # input-relative rejections must match what an entry / sub-metadata costs
    from .C01 import g1justify, wiresig
    g1justify(ctx, rep, only_class=dec_cls, floor=2)
    wiresig(ctx, rep, ids=("md_string", "md_tree", "md_geometry", "header"))
    from ..presence import run_presence
    rep.rules_text.append("PRESENCE: the header bit that announces the metadata block is set on every path on which the block is present and on no other; the block is written under the same test; the reader reads it exactly on the 'bit set' edge")
    n_pr = run_presence(ctx, rep)
    rep.floor("presence-flag sites (setter, writer, reader)", n_pr, 3)
    from ..rejects import run_rejects
    rep.rules_text.append("REJECT-LEDGER: every constant-bound rejection of a stream-derived field in the readers (a branch outcome that only reaches failing returns on `field op constant`) is listed in the frozen ledger rules/rejects.json; a new one narrows what the reader accepts")
    n_rej = run_rejects(ctx, rep, "REJECT-LEDGER", ("/draco/metadata/",))
    rep.floor("constant-bound rejections inspected", n_rej, 0)

    rep.add(Obligation("REJECTDOM", dec_cls, "inventory closed", "-", DISCHARGED,
                       detail="%d non-input-relative rejections found in %s, all listed with their "
                              "writer-side counterpart" % (len(found), dec_cls), trivial=True))
