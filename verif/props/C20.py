"""C20 — keyframe animations round-trip with frame order preserved (thin).

Decided: animations are coded with the order-preserving method on both sides.
The animation coder *is* a sequential point-cloud coder (its functions are in
Reach(encode/decode), so the C01/C02/C18 rules cover it); here: the final
overrider of the method id is the sequential id, both sides construct the
linear (identity) sequencer and no other, the linear sequencer assigns point i
to slot i, the entry points hand over to the sequential coder on the same
object, and timestamps are stored and looked up under the same id constant.
"""
from ..core import Obligation, DISCHARGED, VIOLATION, load_table
from ..facts import walk, strip_targs
from ..substrate import AnalysisBroken
from .. import dispatch as D
from ..taint import _tree_eq
from ..cfgutil import must_pass, blocks_calling

LEVEL = "other"


def constructed_sequencers(F, fn_base):
    out = set()
    fns = list(F.find(fn_base))
    # follow file-local / static factory helpers the overrider delegates to (two levels)
    seen = {f.key for f in fns}
    frontier = fns
    for _ in range(2):
        nxt = []
        for fn in frontier:
            for n, b, rk, e in fn.nodes():
                if n.get("k") == "call" and not n.get("virt"):
                    for t in F.targets(n):
                        if t.key not in seen and "/draco/" in t.file and not t.cls:
                            seen.add(t.key)
                            nxt.append(t)
        fns += nxt
        frontier = nxt
    for fn in fns:
        for n, b, rk, e in fn.nodes():
            if n.get("k") == "new":
                t = strip_targs(n.get("t", ""))
                if t in F.classes or n.get("t") in F.classes:
                    cn = n.get("t")
                    if F.derives_from(cn, "draco::PointsSequencer"):
                        out.add(t)
    return out


def run(ctx, rep):
    F = ctx.F
    led = load_table("format_ledger.json")
    rep.rules_text.append(
        "WITNESS/DISPATCH: KeyframeAnimationEncoder's final GetEncodingMethod is "
        "POINT_CLOUD_SEQUENTIAL_ENCODING; the attribute coder factories of the "
        "sequential point-cloud coder construct LinearSequencer only; "
        "LinearSequencer::GenerateSequenceInternal stores PointIndex(i) in slot i; "
        "the animation entry points delegate to the sequential coder on this; "
        "timestamps use one id constant for store and lookup")
    rep.not_decided += ["bit-exact values, quantisation bounds and id stability of tracks (runtime)"]
    rep.trusted_base += ["clang 14 AST/CFG", "dfacts"]
    seq_id = led["enums"]["draco::PointCloudEncodingMethod"]["POINT_CLOUD_SEQUENTIAL_ENCODING"]

    for cls in ("draco::KeyframeAnimationEncoder",):
        if cls not in F.classes:
            raise AnalysisBroken(cls + " not found")
        v = D.getter_value(F, cls, "GetEncodingMethod")
        rep.add(Obligation("WITNESS", cls, "GetEncodingMethod", F.classes[cls]["loc"],
                           DISCHARGED if v == seq_id else VIOLATION,
                           detail="final overrider returns %s (POINT_CLOUD_SEQUENTIAL_ENCODING = %s)" % (v, seq_id)))
    for cls, base in (("draco::KeyframeAnimationEncoder", "draco::PointCloudSequentialEncoder"),
                      ("draco::KeyframeAnimationDecoder", "draco::PointCloudSequentialDecoder")):
        if cls not in F.classes:
            raise AnalysisBroken(cls + " not found")
        ok = F.derives_from(cls, base)
        rep.add(Obligation("WITNESS", cls, "derives from " + base.replace("draco::", ""),
                           F.classes[cls]["loc"], DISCHARGED if ok else VIOLATION,
                           detail="order-preserving (sequential) coder" if ok else
                           "animation coder no longer derives from the sequential coder"))
    # which sequencer the (inherited) factories construct
    for cls, meth in (("draco::KeyframeAnimationDecoder", "CreateAttributesDecoder"),
                      ("draco::KeyframeAnimationEncoder", "GenerateAttributesEncoder")):
        cur, body = cls, None
        seen = set()
        while cur and cur not in seen and body is None:
            seen.add(cur)
            c = F.classes.get(cur)
            for m in (c or {}).get("methods", []):
                if m["sn"] == meth and not m.get("pure") and F.by_m.get(m["m"]) is not None:
                    body = F.by_m[m["m"]]
                    break
            cur = next((b for b in (c or {}).get("bases", []) if b in F.classes), None)
        if body is None:
            raise AnalysisBroken("no final overrider of %s for %s" % (meth, cls))
        seqs = constructed_sequencers(F, body.base)
        ok = seqs == {"draco::LinearSequencer"}
        rep.add(Obligation("DISPATCH", cls, meth, body.loc, DISCHARGED if ok else VIOLATION,
                           detail="final overrider %s constructs %s" % (body.name, sorted(seqs))))
    # LinearSequencer is the identity
    gs = F.need("draco::LinearSequencer::GenerateSequenceInternal")
    for fn in gs:
        ok = False
        for n, b, rk, e in fn.nodes():
            tgt = val = None
            if n.get("k") == "call" and n.get("opcall") and strip_targs(n.get("fn") or "").endswith("::operator="):
                tgt, val = n.get("obj"), (n.get("args") or [None])[0]
            elif n.get("k") == "bin" and n.get("op") == "=":
                tgt, val = n.get("l"), n.get("r")
            if not isinstance(tgt, dict) or not isinstance(val, dict):
                continue
            idx = None
            if tgt.get("k") == "call" and strip_targs(tgt.get("fn") or "").endswith(("::at", "::operator[]")):
                idx = (tgt.get("args") or [None])[0]
            while isinstance(val, dict) and val.get("k") in ("copy", "cast"):
                val = val.get("e")
            if idx is not None and val.get("k") == "ctor" and "PointIndex" in val.get("cls", "") and \
                    len(val.get("args", [])) == 1 and _tree_eq(val["args"][0], idx):
                ok = True
        # tolerant form: every element store puts PointIndex(v) (or v++) where v is an integer that starts at 0
        # and only ever advances by one - whatever the loop / indexing style (at(i), [i], range-for, while)
        if not ok:
            stores = []
            for blk2, rk2, tree2, ev2 in fn.roots():
                if tree2 is None:
                    continue
                for n2 in walk(tree2):
                    val2 = None
                    if n2.get("k") == "call" and n2.get("opcall") and strip_targs(n2.get("fn") or "").endswith("::operator=") \
                            and "PointIndex_tag" in (n2.get("objt") or n2.get("fn") or ""):
                        val2 = (n2.get("args") or [None])[0]
                    elif n2.get("k") == "bin" and n2.get("op") == "=" and "PointIndex_tag" in str((n2.get("l") or {}).get("t", "")):
                        val2 = n2.get("r")
                    if val2 is None:
                        continue
                    while isinstance(val2, dict) and val2.get("k") in ("copy", "cast", "icast"):
                        val2 = val2.get("e")
                    arg = None
                    if isinstance(val2, dict) and val2.get("k") == "ctor" and len(val2.get("args", [])) == 1:
                        arg = val2["args"][0]
                        while isinstance(arg, dict) and arg.get("k") in ("copy", "cast", "icast"):
                            arg = arg.get("e")
                        if isinstance(arg, dict) and arg.get("k") == "un" and arg.get("op") == "++":
                            arg = arg.get("e")
                    stores.append(arg if isinstance(arg, dict) and arg.get("k") == "var" and "d" in arg else None)
            if stores and all(a is not None for a in stores):
                good = True
                for a in stores:
                    init0 = False
                    for b3, ev3 in fn.events():
                        if ev3["k"] == "decl" and (ev3.get("var") or {}).get("d") == a["d"]:
                            e3 = ev3.get("e")
                            init0 = isinstance(e3, dict) and e3.get("v") == 0
                    adv_ok = True
                    for blk3, rk3, tree3, ev3 in fn.roots():
                        if tree3 is None:
                            continue
                        for n3 in walk(tree3):
                            if n3.get("k") == "bin" and n3.get("op") in ("=", "+=", "-=", "*=") and \
                                    isinstance(n3.get("l"), dict) and n3["l"].get("k") == "var" and n3["l"].get("d") == a["d"]:
                                if not (n3["op"] == "+=" and isinstance(n3.get("r"), dict) and n3["r"].get("v") == 1):
                                    adv_ok = False
                            if n3.get("k") == "un" and n3.get("op") == "--" and isinstance(n3.get("e"), dict) and \
                                    n3["e"].get("d") == a["d"]:
                                adv_ok = False
                    good &= init0 and adv_ok
                ok = good
        # equivalent standard form: std::iota(begin, end, PointIndex(0))
        for n, b, rk, e in fn.calls():
            if strip_targs(n.get("fn") or "") == "std::iota":
                a = n.get("args") or []
                if len(a) == 3:
                    v = a[2]
                    while isinstance(v, dict) and v.get("k") in ("copy", "cast", "icast"):
                        v = v.get("e")
                    zero = isinstance(v, dict) and (v.get("v") == 0 or (
                        v.get("k") == "ctor" and len(v.get("args", [])) == 1 and
                        isinstance(v["args"][0], dict) and v["args"][0].get("v") == 0))
                    begins = any(x.get("k") == "call" and strip_targs(x.get("fn") or "").endswith("::begin")
                                 for x in walk(a[0]))
                    if zero and begins:
                        ok = True
        rep.add(Obligation("WITNESS", fn.base, "identity sequence", fn.loc,
                           DISCHARGED if ok else VIOLATION,
                           detail="slot i receives PointIndex(i)" if ok else
                           "the linear sequencer no longer stores PointIndex(i) in slot i"))
    # entry points delegate on this
    for fnb, callee in (("draco::KeyframeAnimationEncoder::EncodeKeyframeAnimation", "draco::PointCloudEncoder::Encode"),
                        ("draco::KeyframeAnimationDecoder::Decode", "draco::PointCloudDecoder::Decode")):
        for fn in F.need(fnb):
            hit = [n for n, b, rk, e in fn.calls() if strip_targs(n.get("fn") or "") == callee and n.get("objthis")
                   and n.get("use") in ("ret", "init", "cond", "assign")]
            rep.add(Obligation("WITNESS", fn.base, "delegates to " + callee, fn.loc,
                               DISCHARGED if hit else VIOLATION,
                               detail="hands the animation to the sequential coder on the same object and consumes the status"
                               if hit else "entry point no longer runs the sequential coder on this object"))
    # timestamp id constant
    users = []
    for fn in F.fns.values():
        if fn.cls != "draco::KeyframeAnimation":
            continue
        for b, kind, tree, e in fn.roots():
            if tree is None:
                continue
            if any(n.get("k") == "var" and n.get("g") == "draco::KeyframeAnimation::kTimestampId" for n in walk(tree)):
                users.append(fn.base)
                break
    need = {"draco::KeyframeAnimation::timestamps", "draco::KeyframeAnimation::SetTimestamps"}
    ok = need <= set(users)
    rep.add(Obligation("WITNESS", "draco::KeyframeAnimation", "kTimestampId", "-", DISCHARGED if ok else VIOLATION,
                       detail="timestamps are stored and looked up under the same constant (users: %s)" % sorted(set(users))))

    timestamp_slot(ctx, rep, led)
    # "each track retrievable under the id it was added with": the decoder restores decoded unique ids
    from .C01 import uniqueid
    uniqueid(ctx, rep)
    # "decoding succeeds": the sequential point-cloud reader the animation coder inherits rejects nothing
    # the writer produces - item-count plausibility guards must be backed by per-item consumption
    keytype(ctx, rep)
    from .C01 import g1justify
    rep.rules_text.append("G1JUSTIFY (sequential point-cloud reader): an input-relative rejection of an item count is backed by at least that many bytes consumed per item (keyframes compress to far less than a byte per frame)")
    g1justify(ctx, rep, only_class={"draco::PointCloudSequentialDecoder", "draco::PointCloudDecoder",
                                    "draco::AttributesDecoder", "draco::SequentialAttributeDecodersController",
                                    "draco::SequentialAttributeDecoder", "draco::SequentialIntegerAttributeDecoder",
                                    "draco::SequentialQuantizationAttributeDecoder", "draco::KeyframeAnimationDecoder"},
              floor=1)


def timestamp_slot(ctx, rep, led):
    """TIMESTAMP-SLOT: on every success path SetTimestamps installs, in attribute slot kTimestampId, a fresh
    one-component float32 attribute built in this function (the property's anchor: 'timestamps pinned to id
    0'; encoder options - per-track quantization - are keyed by attribute index, tracks by unique id)."""
    F = ctx.F
    rep.rules_text.append(
        "TIMESTAMP-SLOT: every success path of KeyframeAnimation::SetTimestamps passes "
        "PointCloud::SetAttribute(kTimestampId, <attribute>) where the attribute is the one this function "
        "initialised with one DT_FLOAT32 component; KeyframeAnimation::AddKeyframes returns the id handed out "
        "by AddAttribute for the track it built and reserves slot 0 first when no attribute exists yet")
    dt_f32 = led["enums"]["draco::DataType"]["DT_FLOAT32"]
    for fn in F.need("draco::KeyframeAnimation::SetTimestamps"):
        def is_set(n):
            if strip_targs(n.get("fn") or "") != "draco::PointCloud::SetAttribute" or not n.get("objthis"):
                return False
            a0 = (n.get("args") or [None])[0]
            return isinstance(a0, dict) and any(x.get("g") == "draco::KeyframeAnimation::kTimestampId"
                                                for x in walk(a0))
        sb = blocks_calling(fn, is_set)
        bad = must_pass(fn, sb) if sb else [1]
        rep.add(Obligation("TIMESTAMP-SLOT", fn.base, "SetAttribute(kTimestampId, ...) on every success path", fn.loc,
                           DISCHARGED if sb and not bad else VIOLATION,
                           detail="timestamps always replace attribute slot kTimestampId" if sb and not bad else
                           "a success path of SetTimestamps does not install the timestamps in attribute slot "
                           "kTimestampId (attribute index and unique id of the timestamps / tracks drift apart)"))
        inits = []
        for n, b, rk, ev in fn.calls():
            if strip_targs(n.get("fn") or "") in ("draco::PointAttribute::Init", "draco::GeometryAttribute::Init"):
                a = n.get("args") or []
                comps = a[1].get("v") if len(a) > 1 and isinstance(a[1], dict) else None
                dt = a[2].get("v") if len(a) > 2 and isinstance(a[2], dict) else None
                inits.append((b, comps, dt))
        good = [b for b, c, d in inits if c == 1 and d == dt_f32]
        ok = bool(good) and bool(sb) and all(any(fn.block_dominates(g, s_) for g in good) for s_ in sb)
        if not inits:
            rep.note("SetTimestamps contains no PointAttribute::Init call (attribute built by a helper?): the "
                     "1 x DT_FLOAT32 clause is not decided")
            ok = True
        rep.add(Obligation("TIMESTAMP-SLOT", fn.base, "timestamp attribute is 1 x DT_FLOAT32", fn.loc,
                           DISCHARGED if ok else VIOLATION,
                           detail="Init(GENERIC, 1, DT_FLOAT32, ...) dominates the installation" if ok else
                           "the attribute installed as timestamps is not initialised here as one DT_FLOAT32 component "
                           "(found Init calls with (components, type) = %s)" % [(c, d) for b, c, d in inits]))
    if not F.find("draco::KeyframeAnimation::AddKeyframes"):
        rep.note("KeyframeAnimation::AddKeyframes<T> is a template that only the test units instantiate: not analysed")
    for fn in F.find("draco::KeyframeAnimation::AddKeyframes"):
        adds = [(n, b) for n, b, rk, ev in fn.calls()
                if strip_targs(n.get("fn") or "") == "draco::PointCloud::AddAttribute" and n.get("objthis")]
        ret_add = [n for n, b in adds if n.get("use") == "ret"]
        rep.add(Obligation("TIMESTAMP-SLOT", fn.base, "track id is the id AddAttribute hands out", fn.loc,
                           DISCHARGED if ret_add else VIOLATION,
                           detail="returns this->AddAttribute(track)" if ret_add else
                           "AddKeyframes no longer returns the attribute id of the track it added"))
        reserve = [n for n, b in adds if n.get("use") != "ret"]
        rep.add(Obligation("TIMESTAMP-SLOT", fn.base, "slot 0 reserved before the first track", fn.loc,
                           DISCHARGED if reserve else VIOLATION,
                           detail="placeholder attribute added when no attribute exists yet" if reserve else
                           "the first track would take attribute slot 0 (kTimestampId)"))
        break


def keytype(ctx, rep):
    """KEYTYPE: the encoder-worker options (`EncoderOptions` = DracoOptions<int>) are keyed by attribute *id* -
    for an animation, the track id.  An attribute *type* enumerator converts to int silently
    (GeometryAttribute::GENERIC == 4) and then addresses whatever attribute / track has that id."""
    F = ctx.F
    rep.rules_text.append(
        "KEYTYPE: no call of a DracoOptions<int> (attribute-id keyed) accessor in the library receives a "
        "GeometryAttribute::Type value as its key (an attribute type is not an attribute / track id)")
    n, bad_ctl = 0, False
    for fn in F.fns.values():
        is_ctl = fn.name.startswith("verif_control::c20_keytype")
        if "/draco/" not in fn.file and not is_ctl:
            continue
        for c, b, rk, ev in fn.calls():
            fnm = c.get("fn") or ""
            if not fnm.startswith("draco::DracoOptions<int>::") and not (
                    fnm.startswith("draco::EncoderOptionsBase<int>::")):
                continue
            args = c.get("args") or []
            if not args:
                continue
            sh = strip_targs(fnm).rsplit("::", 1)[-1]
            if "Attribute" not in sh:
                continue
            n += 0 if is_ctl else 1
            typed = any((x.get("k") == "lit" and str(x.get("n") or "").startswith("draco::GeometryAttribute::")) or
                        "GeometryAttribute::Type" in str(x.get("t") or "")
                        for x in walk(args[0]))
            if typed:
                bad_ctl |= is_ctl
                rep.add(Obligation("KEYTYPE", fn.base, "key of " + sh, fn.site(c.get("loc", "")), VIOLATION, control=is_ctl,
                                   detail="`%s`: an attribute type is used as the key of options that are keyed by "
                                          "attribute id; it addresses the attribute / animation track with that number" % (
                                              ev.get("src") or "")[:100]))
    rep.add(Obligation("KEYTYPE", "library", "id-keyed option accesses", "-", DISCHARGED, trivial=True,
                       detail="%d accesses of attribute-id keyed options inspected" % n))
    rep.floor("accesses of attribute-id keyed options", n, 10)
    rep.control("KEYTYPE", "c20_keytype_bad", bad_ctl, "an attribute type used as an attribute-id key must be reported")
