"""C01 — encode/decode round trip reproduces the geometry (partial).

(a) DISPATCH: every wire id an encoder class can emit constructs the sibling
decoder class under the same id, for all ten id families; (b) DROPPED(enc): no
failure on the encode path is swallowed ("whenever encoding reports success");
BITMODE backs the one excluded callee family.
"""
from ..core import Obligation, DISCHARGED, VIOLATION, ALLOWED, NOTE, load_table
from ..facts import walk, strip_targs
from ..dropped import CanFail, find_sites, cannot_fail_with_const_arg
from ..dispatch_check import run_families
from ..substrate import AnalysisBroken
from .C02 import _find_call
from .C08 import clamp_verified

LEVEL = "other"


def bitmode(ctx, rep):
    """No byte-level Encode on a buffer between StartBitEncoding and
    EndBitEncoding of the same function; every Start is followed by End on all
    paths; bit-level writes only happen in between."""
    F = ctx.F
    n = 0
    for key in sorted(ctx.reach("encode")):
        fn = F.fns.get(key)
        if fn is None:
            continue
        starts, ends, byte_calls, bit_calls = [], set(), [], []
        end_ids = {}
        for nd, b, rk, e in fn.calls():
            base = strip_targs(nd.get("fn") or "")
            if base == "draco::EncoderBuffer::StartBitEncoding":
                starts.append((nd, b))
            elif base == "draco::EncoderBuffer::EndBitEncoding":
                ends.add(b)
                end_ids.setdefault(b, nd.get("i", 0))
            elif base in ("draco::EncoderBuffer::Encode", "draco::EncodeVarint"):
                byte_calls.append((nd, b))
            elif base == "draco::EncoderBuffer::EncodeLeastSignificantBits32":
                bit_calls.append((nd, b))
        if not starts and not bit_calls:
            continue
        if fn.cls and strip_targs(fn.cls) == "draco::EncoderBuffer":
            continue
        for nd, b in starts:
            n += 1
            open_region = fn.reachable(start=b, removed_blocks=ends - {b})
            bad_exit = fn.exit in open_region and b not in ends
            bad_bytes = [fn.site(c.get("loc", "")) for c, cb in byte_calls
                         if cb in open_region and cb != b]
            # same block as the End (before it) or as the Start (after it)
            for c, cb in byte_calls:
                if cb in ends and cb != b and \
                        (cb in fn.reachable(start=b, removed_blocks=ends - {b, cb})) and \
                        c.get("i", 0) < end_ids.get(cb, 0):
                    bad_bytes.append(fn.site(c.get("loc", "")))
                if cb == b and c.get("i", 0) > nd.get("i", 0) and \
                        (b not in ends or c.get("i", 0) < end_ids.get(b, 1 << 30)):
                    bad_bytes.append(fn.site(c.get("loc", "")))
            st = VIOLATION if (bad_exit or bad_bytes) else DISCHARGED
            rep.add(Obligation("BITMODE", fn.base, "StartBitEncoding", fn.site(nd.get("loc", "")), st,
                               detail="bit sequence is closed on every path and no byte-level write happens inside it"
                               if st == DISCHARGED else
                               ("function can return with the bit sequence open; " if bad_exit else "") +
                               ("byte-level write inside the bit sequence at %s" % bad_bytes if bad_bytes else "")))
        start_blocks = {b for _, b in starts}
        for nd, b in bit_calls:
            if b not in fn.reach_all():
                continue          # pruned constant-false branch
            n += 1
            ok = any(fn.block_dominates(sb, b) for sb in start_blocks)
            rep.add(Obligation("BITMODE", fn.base, "EncodeLeastSignificantBits32", fn.site(nd.get("loc", "")),
                               DISCHARGED if ok else VIOLATION,
                               detail="dominated by StartBitEncoding in the same function" if ok else
                               "bit-level write without a dominating StartBitEncoding", trivial=True))
    return n


def run(ctx, rep):
    F = ctx.F
    tab = load_table("c01.json")
    c08 = load_table("c08.json")
    c11 = load_table("c11.json")
    rep.rules_text.append(
        "DISPATCH over 10 wire-id families (geometry type, point-cloud / mesh "
        "method, sequential attribute coder, prediction scheme, prediction "
        "transform, Edgebreaker traversal coder, symbol scheme, raw bit length "
        "1..18, kd-tree level 0..6): coverage of the reader's table, sibling "
        "pairing, self-consistency of reader-side id getters; DROPPED(enc) over "
        "Reach(encode entry points); BITMODE typestate for the excluded "
        "EncoderBuffer family")
    rep.not_decided += [
        "equality of values, connectivity and order after the round trip",
        "that the decoder replays the encoder's traversal and that predictions use only already-coded values"]
    rep.trusted_base += ["clang 14 AST/CFG", "dfacts", "rules/dispatch.json", "rules/c01.json triage"]

    before = len(rep.obls)
    n = run_families(F, rep)
    d = c08["writer_dead_ids"]["raw_symbol_bit_length"]["0"]
    for o in rep.obls[before:]:
        if o.status == VIOLATION and o.function == "raw_symbol_bit_length" and o.construct.startswith("id 0 "):
            if clamp_verified(F, d["fn"], d["var"], d["min"]):
                o.status, o.by = ALLOWED, d["why"]
    # de-duplicate per (family, construct)
    seen, keep = set(), []
    for o in rep.obls:
        k = (o.rule, o.function, o.construct, o.status)
        if k in seen:
            continue
        seen.add(k)
        keep.append(o)
    rep.obls[:] = keep
    rep.floor("dispatch obligations", len([o for o in rep.obls if o.rule == "DISPATCH"]), 45)

    cf = CanFail(F)
    allow = dict(tab["dropped_allow"])
    scope = set(ctx.reach("encode"))
    ctl = [f for f in F.fns.values() if f.name.startswith("verif_control::c01_")]
    scope |= {f.key for f in ctl}
    obls, stale = find_sites(F, scope, cf, lambda cb, nd: cb.startswith("draco::"),
                             "DROPPED", allow, tab["family_excluded"])
    merged = {}
    for o in obls:
        k = (o.function, o.site, o.construct)
        if k not in merged or o.status == VIOLATION:
            merged[k] = o
    n_real = 0
    for k, o in sorted(merged.items()):
        o.trivial = o.status in (DISCHARGED, NOTE)
        rep.add(o)
        n_real += 0 if o.control else 1
        vk = "%s|%s" % (o.function, o.construct)
        if o.status == ALLOWED and vk in tab.get("dropped_verify", {}):
            idx, val = tab["dropped_verify"][vk]["const_arg"]
            ok = False
            for fn in F.find(o.function):
                call = _find_call(fn, o.site, o.construct)
                if call is not None and cannot_fail_with_const_arg(F, cf, call, idx, val):
                    ok = True
            rep.add(Obligation("DROPPED-VERIFY", o.function, o.construct, o.site,
                               DISCHARGED if ok else VIOLATION,
                               detail="allow-table reason re-checked against the callee's CFG"))
    rep.floor("fallible call sites on the encode path", n_real, tab["dropped_floor"])
    rep.control("DROPPED", "c01_dropped_bad", any(o.status == VIOLATION for o in merged.values() if o.control),
                "encoder stage result discarded")
    for s_ in stale:
        rep.note("stale allow entry: " + s_)
    nb = bitmode(ctx, rep)
    rep.floor("bit-sequence sites on the encode path", nb, 3)
    selectors_agree(ctx, rep)
    g1justify(ctx, rep)
    cursor(ctx, rep)
    wiresig(ctx, rep)
    uniqueid(ctx, rep)
    markkeep(ctx, rep, tab)
    from ..predsig import run_predsig
    rep.rules_text.append("PREDSIG: for every prediction scheme with an encoder and a decoder class, the backward slice of the predicted value handed to the transform (ComputeCorrection / ComputeOriginalValue) uses the same set of (operation, width[, constant]) on both sides, and every shared helper in the decoder's slice is in the encoder's")
    n_ps = run_predsig(ctx, rep)
    rep.floor("encoder/decoder prediction-scheme pairs compared", n_ps, 4)
    from ..stubreach import run_stubreach
    rep.rules_text.append("STUBREACH: a function the code base declares must-not-be-called (`DRACO_DCHECK(false); return <dummy>;`) is not reachable from the writer: no construction site, in Reach(encode), of a class whose methods call such a stub is feasible under the values its factory parameter can take (backward value flow over callers: constants, parameters with the values excluded by the branches passed, constants a callee can return)")
    n_stub, n_sites = run_stubreach(ctx, rep)
    rep.floor("must-not-reach markers inspected", n_stub, 2)
    rep.floor("construction sites of stub-calling classes on the encode path", n_sites, 1)

    from ..rejects import run_rejects
    rep.rules_text.append("REJECT-LEDGER: every constant-bound rejection of a stream-derived field in the readers (a branch outcome that only reaches failing returns on `field op constant`) is listed in the frozen ledger rules/rejects.json; a new one narrows what the reader accepts")
    n_rej = run_rejects(ctx, rep, "REJECT-LEDGER", ("/draco/compression/", "/draco/core/"))
    rep.floor("constant-bound rejections inspected", n_rej, 25)


def selectors_agree(ctx, rep):
    """Derived (not stored) format decisions agree between writer and reader."""
    from .. import selectors as SEL
    F = ctx.F
    tab = load_table("selectors.json")
    led = load_table("format_ledger.json")
    for p in tab["pairs"]:
        F.need(p["writer"]); F.need(p["reader"])
        cur = (led["constants"][p["version_constant"][0]] << 8) | led["constants"][p["version_constant"][1]]
        w = SEL.selector_samples(F, p["writer"], p["quantity"], cur, False)
        r = SEL.selector_samples(F, p["reader"], p["quantity"], cur, True)

        def decided(m):       # the evaluation actually discriminated between the samples
            return len({tuple(v) for v in m.values()}) > 1 and all(len(v) <= 2 for v in m.values())
        if not decided(w) or not decided(r):
            rep.note("selector pair %s: the evaluation could not pin the decision on one side (quantity renamed or "
                     "computed elsewhere); not compared on this tree" % p["id"])
            continue
        for q in sorted(w):
            ok = r.get(q) == w[q]
            rep.add(Obligation("SELECTORS", p["id"], "%s = %d" % (p["quantity"], q), "-",
                               DISCHARGED if ok else VIOLATION,
                               detail="writer and reader both use %s" % w[q] if ok else
                               "for %s = %d the writer emits %s but the reader (current-version path) takes %s: the "
                               "derived format decision differs between the two sides" % (p["quantity"], q, w[q], r.get(q)),
                               trivial=q not in (255, 256, 65535, 65536, 2097151, 2097152)))


def g1justify(ctx, rep, only_class=None, floor=10):
    """Input-relative count guards of the decoders must be justified by the
    per-item consumption of everything they dominate: otherwise the reader
    rejects streams the writer legitimately produces."""
    from ..taintcheck import engine
    from ..minconsume import MinConsume, find_guards, justify
    eng = engine(ctx)
    mc = MinConsume(eng)
    seen = set()
    n = 0
    for fn in eng.scope:
        is_ctl = fn.name.startswith("verif_control::")
        if only_class and not is_ctl and not (
                fn.cls in only_class if isinstance(only_class, (set, tuple, list)) else fn.cls == only_class):
            continue
        for g in find_guards(eng, fn):
            key = (fn.base, g[4], fn.site(g[0].tloc or ""))
            if key in seen:
                continue
            seen.add(key)
            ok, det = justify(eng, fn, g, mc)
            n += 0 if is_ctl else 1
            rep.add(Obligation("G1JUSTIFY", fn.base, "guard `%s`" % g[4][:80], fn.site(g[0].tloc or ""),
                               DISCHARGED if ok else VIOLATION, detail=det, trivial=g[3] <= 1, control=is_ctl))
    rep.floor("input-relative count guards analysed", n, floor)
    ctl = [o for o in rep.obls if o.control and o.rule == "G1JUSTIFY"]
    rep.control("G1JUSTIFY", "g1_unjustified_bad", any(o.status == VIOLATION for o in ctl),
                "a /4 guard in front of 2-byte items must be reported")


def cursor(ctx, rep):
    """CURSOR over everything reachable from the encode and decode entry points."""
    from ..cursor import run_cursor
    F = ctx.F
    rep.rules_text.append(
        "CURSOR: in every function reachable from the encode/decode entry points, a loop-carried cursor that "
        "indexes a container inside a loop advances on every path back to the loop header (a stalled cursor "
        "pairs later items with an earlier item's data on one side of the codec only)")
    scope = set(ctx.reach("encode")) | set(ctx.reach("decode"))
    fns = [F.fns[k] for k in sorted(scope) if k in F.fns and "/draco/" in F.fns[k].file]
    fns += [fn for fn in F.fns.values() if fn.name.startswith("verif_control::c10_cursor")]
    n_real, n_nt, ctl = run_cursor(rep, fns)
    rep.floor("CURSOR: loop-carried index uses on the codec paths", n_real, 250)
    rep.floor("CURSOR: of which not plain induction variables", n_nt, 20)
    rep.control("CURSOR", "c10_cursor_bad", ctl.get("c10_cursor_bad") is False, "stalling cursor must be reported")
    rep.control("CURSOR", "c10_cursor_ok (negative)", ctl.get("c10_cursor_ok") is True, "must be discharged")


WIRESIG_TEXT = ("WIRESIG: for every (writer, reader) pair of rules/wiresig.json the set of type-directed token "
                "sequences along the success paths of the writer (FIX<n> / BYTES / VARINT<bits><sign> / BITS<n> / "
                "bit-region and coder framing / calls of other paired records; helpers inlined, loops taken zero "
                "or one time) equals that of the reader on its current-version path (mode 'paths'), or the sets of "
                "token kinds agree up to the waivers listed with reasons (mode 'kinds', where one side recurses / "
                "buffers and the other does not)")


def wiresig(ctx, rep, ids=None, floor=None):
    from ..wiresig import run_wiresig
    from ..core import load_table
    rep.rules_text.append(WIRESIG_TEXT)
    n = run_wiresig(ctx, rep, "WIRESIG", ids)
    tab = load_table("wiresig.json")
    want = len([p for p in tab["pairs"] if p.get("writer") and (ids is None or p["id"] in ids)])
    rep.floor("WIRESIG pairs compared", n, want if floor is None else floor)


def uniqueid(ctx, rep):
    """UNIQUEID: PointCloud::AddAttribute / SetAttribute overwrite the attribute's unique id with its index
    (fact re-checked on every run).  A decoder that adds an attribute described by the stream must therefore
    restore the decoded id afterwards: on every path from the AddAttribute call to the next item / a success
    return there is a set_unique_id(<stream-derived value>)."""
    from ..taintcheck import engine
    from ..taint import is_src
    from ..cfgutil import blocks_calling
    F = ctx.F
    eng = engine(ctx)
    rep.rules_text.append(
        "UNIQUEID: PointCloud::SetAttribute assigns unique id := attribute index (checked); in decoder-layer code "
        "every PointCloud::AddAttribute of a stream-described attribute is followed, on every path to the next "
        "item or a success return, by set_unique_id(<value decoded from the stream>): attributes (and animation "
        "tracks) are matched by unique id")
    overwrites = any(strip_targs(n.get("fn") or "").endswith("::set_unique_id")
                     for fn in F.find("draco::PointCloud::SetAttribute") for n, b, rk, ev in fn.calls())
    rep.add(Obligation("UNIQUEID", "draco::PointCloud::SetAttribute", "overwrites the unique id", "-",
                       DISCHARGED, detail="SetAttribute %s the unique id" % ("overwrites" if overwrites else
                                                                             "no longer overwrites"), trivial=True))
    n_real, fired = 0, False
    for fn in eng.scope:
        is_ctl = fn.name.startswith("verif_control::")
        if not is_ctl and "/draco/compression/" not in fn.file:
            continue
        ft = eng.ft[fn.key]
        adds = [(n, b) for n, b, rk, ev in fn.calls()
                if strip_targs(n.get("fn") or "") in ("draco::PointCloud::AddAttribute", "draco::PointCloud::SetAttribute")
                and len(n.get("args") or []) <= 2 and "unique_ptr" in " ".join(n.get("pt") or [])]
        if not adds or not overwrites:
            continue
        # does the function read an id from the stream at all?  (an attribute built from decoded descriptors)
        if not any(is_src(l) for labs in ft.place_labels.values() for l in labs):
            continue
        setters = set()
        for n, b, rk, ev in fn.calls():
            if strip_targs(n.get("fn") or "").endswith("::set_unique_id"):
                a = (n.get("args") or [None])[0]
                if a is not None and any(is_src(l) for l in ft.labels(a, b)):
                    setters.add((b, n.get("i", 0)))
        for n, b, in adds:
            loops = sorted([l for l in fn.loops() if b in l[1]], key=lambda l: len(l[1]))
            stop = {loops[0][0]} if loops else set()
            later_same_block = any(sb == b and si > n.get("i", 0) for sb, si in setters)
            sblocks = {sb for sb, si in setters if sb != b}
            region = fn.reachable(start=b, removed_blocks=(sblocks | set()) - {b})
            escapes = (not later_same_block) and (bool(region & stop) or fn.exit in region)
            ok = later_same_block or not escapes
            n_real += 0 if is_ctl else 1
            fired |= is_ctl and not ok
            rep.add(Obligation("UNIQUEID", fn.base, "AddAttribute of a stream-described attribute",
                               fn.site(n.get("loc", "")), DISCHARGED if ok else VIOLATION,
                               detail="the decoded unique id is restored after AddAttribute on every path" if ok else
                               "after PointCloud::AddAttribute (which sets unique id := index) a path reaches the next "
                               "item / exit without set_unique_id(<decoded id>): attributes are no longer found under "
                               "the id they were encoded with", control=is_ctl))
    rep.floor("UNIQUEID: decoder-layer AddAttribute sites", n_real, 1)
    rep.control("UNIQUEID", "uniqueid_bad", fired, "missing restore of the decoded unique id must be reported")


def markkeep(ctx, rep, tab):
    """MARKKEEP: protocol marks set through a dedicated method keep a closed set of writers."""
    from ..taint import ASSIGN_OPS
    F = ctx.F
    rep.rules_text.append(
        "MARKKEEP: a protocol mark that another object sets through a dedicated method at a point of the set-up "
        "that depends on attribute order (SequentialAttributeEncoder::is_parent_encoder_ via MarkParentAttribute) is "
        "written only by that method and the constructor: a reset elsewhere silently drops the mark for some orders")
    n = 0
    for ent in tab.get("protocol_fields", []):
        cls, fld = ent["class"], ent["field"]
        if cls not in F.classes:
            raise AnalysisBroken("MARKKEEP: class %s not found" % cls)
        writers = {}
        for fn in F.fns.values():
            if not fn.cls or strip_targs(fn.cls) != cls:
                continue
            for b, ev in fn.events():
                if ev.get("k") == "minit" and ev.get("field") == fld:
                    writers.setdefault(fn.base, fn.loc)
            for b, rk, tree, ev in fn.roots():
                if tree is None:
                    continue
                for x in walk(tree):
                    if x.get("k") == "bin" and x.get("op") in ASSIGN_OPS:
                        l = x.get("l")
                        while isinstance(l, dict) and l.get("k") in ("icast", "cast", "paren"):
                            l = l.get("e")
                        if isinstance(l, dict) and l.get("k") == "field" and l.get("n") == fld and \
                                strip_targs(l.get("cls") or "") == cls:
                            writers.setdefault(fn.base, fn.site(x.get("loc", "") or ev.get("loc", "")))
        if not writers:
            raise AnalysisBroken("MARKKEEP: no writer of %s::%s found" % (cls, fld))
        for w, site in sorted(writers.items()):
            ok = w in ent["allowed_writers"]
            n += 1
            rep.add(Obligation("MARKKEEP", w, "writes %s" % fld, site, DISCHARGED if ok else VIOLATION, trivial=ok,
                               detail="the dedicated setter / constructor" if ok else
                               "a new writer of the protocol mark %s::%s: %s" % (cls.replace("draco::", ""), fld, ent["why"])))
    rep.floor("writers of protocol marks", n, 1)
