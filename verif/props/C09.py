"""C09 — reported encoded point/face counts equal what the decoder produces.

Decided statically (DESIGN §4 C09): MUSTPASS + sibling agreement.
  * every public encode entry of a class derived from EncoderBase sets both
    reported counts, on every success path, from the worker that produced the
    stream (or hands over to a sibling entry on the same object);
  * the worker entry must-pass the count computation when tracking is on, and
    the geometry stage that hosts the face count is must-passed by it;
  * every concrete encoder's final overrider of the count computation reaches
    the setter; the option keys written by the tracking switch are the ones
    the workers read.
Not decided: that the Edgebreaker seam simulation equals the decoder's point
creation (a relation between two algorithms over all topologies).
"""
from ..core import Obligation, DISCHARGED, VIOLATION, load_table
from ..facts import walk, strip_targs
from ..cfgutil import must_pass, blocks_calling, call_base, success_returns
from ..substrate import AnalysisBroken

LEVEL = "other"


def root_var(t):
    """Descend through calls on an object / derefs / copies to the variable
    or field the value is read from."""
    for _ in range(20):
        if not isinstance(t, dict):
            return None
        k = t.get("k")
        if k in ("var", "field", "this"):
            return t
        if k == "call":
            t = t.get("obj")
        elif k in ("copy", "icast", "cast", "un"):
            t = t.get("e")
        else:
            return None
    return None


def same_obj(a, b):
    if a is None or b is None:
        return False
    if a.get("k") != b.get("k"):
        return False
    if a["k"] == "var":
        return a.get("d") is not None and a.get("d") == b.get("d")
    if a["k"] == "field":
        return a.get("n") == b.get("n") and bool(a.get("this")) == bool(b.get("this"))
    return a["k"] == "this"


def run(ctx, rep):
    F = ctx.F
    tab = load_table("c09.json")
    rep.rules_text.append(
        "MUSTPASS: every success exit of every public encode entry of an "
        "EncoderBase-derived class passes set_num_encoded_points and "
        "set_num_encoded_faces with values read from the worker whose Encode "
        "produced the stream (or delegates to a sibling entry on the same "
        "object); worker entries must-pass the count computation under the "
        "tracking option; every concrete encoder's overrider reaches the setter")
    rep.not_decided.append("equality of the computed counts with the decoder's "
                           "point/face creation for every topology (runtime relation)")
    rep.trusted_base += ["clang 14 AST/CFG", "dfacts extractor",
                         "rules/c09.json anchor names"]

    # ---- façade entries -------------------------------------------------
    facade_classes = [c for c in F.classes.values()
                      if any(b.startswith("draco::EncoderBase<") for b in c.get("bases", []))]
    if not [c for c in facade_classes if not c["name"].startswith("verif_control::")]:
        raise AnalysisBroken("no class derives from draco::EncoderBase<> any more")
    entries = []
    for c in facade_classes:
        # public entries and the private workers they delegate to
        for fn in F.fns.values():
            if fn.cls != c["name"]:
                continue
            if fn.ret.get("t") != "draco::Status":
                continue
            if not any("draco::EncoderBuffer *" == p.get("t") for p in fn.params):
                continue
            entries.append(fn)
    entry_keys = {f.m for f in entries}
    real_entries = [f for f in entries if not f.name.startswith("verif_control::")]
    rep.floor("public encode entries of EncoderBase-derived classes",
              len(real_entries), tab["facade_entries_floor"])

    for fn in sorted(entries, key=lambda f: f.name):
        is_ctl = fn.name.startswith("verif_control::")
        # workers: objects on which a Status-returning call taking the output
        # buffer is made
        workers = []
        for n, b, kind, ev in fn.calls():
            if n["k"] != "call" or n.get("objthis") or "obj" not in n:
                continue
            if n.get("ret") != "draco::Status":
                continue
            rv = root_var(n.get("obj"))
            if rv is not None:
                workers.append((rv, n))

        def delegate(call):
            return bool(call.get("objthis")) and call.get("m") in entry_keys

        for setter, getter in (("set_num_encoded_points", "num_encoded_points"),
                               ("set_num_encoded_faces", "num_encoded_faces")):
            pass_blocks = set()
            bad_value = []
            for n, b, kind, ev in fn.calls():
                if n["k"] != "call" or not n.get("objthis"):
                    continue
                if not call_base(n).endswith("::" + setter):
                    continue
                arg = (n.get("args") or [None])[0]
                ok = False
                # a count kept in a named local first (`const size_t n = worker->num_encoded_points();`):
                # judge the initialiser(s) of that local
                srcs = [arg]
                a0 = arg
                while isinstance(a0, dict) and a0.get("k") in ("icast", "cast", "copy"):
                    a0 = a0.get("e")
                if isinstance(a0, dict) and a0.get("k") == "var" and "d" in a0:
                    for b2, ev2 in fn.events():
                        if ev2["k"] == "decl" and (ev2.get("var") or {}).get("d") == a0["d"] and isinstance(ev2.get("e"), dict):
                            srcs.append(ev2["e"])
                    for n2, b2, rk2, ev2 in fn.nodes():
                        if n2.get("k") == "bin" and n2.get("op") == "=" and isinstance(n2.get("l"), dict) and \
                                n2["l"].get("k") == "var" and n2["l"].get("d") == a0["d"]:
                            srcs.append(n2.get("r"))
                for sub in (x for s_ in srcs for x in walk(s_)):
                    if sub.get("k") == "call" and call_base(sub).endswith("::" + getter):
                        rv = root_var(sub.get("obj"))
                        if any(same_obj(rv, w) for w, _ in workers):
                            ok = True
                # a point-cloud worker has no faces: literal 0 is the value
                if not ok and getter == "num_encoded_faces" and isinstance(arg, dict):
                    a = arg
                    while a.get("k") == "icast":
                        a = a.get("e")
                    if a.get("k") == "lit" and a.get("v") == 0:
                        wt = [w_call.get("objt", "") for _, w_call in workers]
                        if wt and all(not F.derives_from(t, "draco::MeshEncoder") for t in wt):
                            ok = True
                if ok:
                    pass_blocks.add(b)
                else:
                    bad_value.append(fn.site(n.get("loc", "")))
            bad = must_pass(fn, pass_blocks, delegate=delegate)
            construct = setter
            if bad_value:
                rep.add(Obligation("MUSTPASS", fn.base, construct, bad_value[0], VIOLATION,
                                   detail="%s is called with a value that is not read from the "
                                          "worker that produced the stream" % setter,
                                   control=is_ctl))
            elif bad:
                b, ev = bad[0]
                rep.add(Obligation("MUSTPASS", fn.base, construct, fn.site(ev.get("loc", "")),
                                   VIOLATION,
                                   detail="success return `%s` is reachable without %s(<worker>.%s())"
                                          % (ev.get("src", ""), setter, getter),
                                   control=is_ctl,
                                   extra={"entry": fn.name,
                                          "offending_exit": fn.site(ev.get("loc", ""))}))
            else:
                how = "delegates to sibling entry on this" if not pass_blocks else \
                    "all %d success returns pass the setter" % len(success_returns(fn))
                rep.add(Obligation("MUSTPASS", fn.base, construct, fn.loc, DISCHARGED,
                                   detail=how, control=is_ctl))
    ctl = [o for o in rep.obls if o.control and o.rule == "MUSTPASS"]
    rep.control("MUSTPASS", "verif_control::C09Facade::EncodeMeshToBuffer",
                any(o.status == VIOLATION for o in ctl),
                "facade that returns the worker status without copying the counts")

    # ---- worker level ---------------------------------------------------
    for w in tab["workers"]:
        fns = F.need(w["fn"])
        for fn in fns:
            # edges on which the tracking option is false
            removed = set()
            opt_seen = False
            for b in fn.blocks.values():
                if b.cond is None or len(b.succ) != 2:
                    continue
                lits = [n.get("s") for n in walk(b.cond) if n.get("k") == "lit" and "s" in n]
                if w["option"] in lits:
                    opt_seen = True
                    if b.succ[1] is not None:
                        removed.add((b.id, b.succ[1]))
            pb = blocks_calling(fn, lambda n: n.get("objthis") and call_base(n) == w["compute"])
            if not opt_seen:
                rep.add(Obligation("MUSTPASS", fn.base, w["compute"], fn.loc, VIOLATION,
                                   detail="worker no longer reads option '%s'" % w["option"]))
                continue
            bad = must_pass(fn, pb, assume_edges_removed=removed)
            if bad or not pb:
                b, ev = (bad[0] if bad else (None, {}))
                rep.add(Obligation("MUSTPASS", fn.base, w["compute"],
                                   fn.site(ev.get("loc", "")) if bad else fn.loc, VIOLATION,
                                   detail="with '%s' on, a success return is reachable without %s"
                                          % (w["option"], w["compute"])))
            else:
                rep.add(Obligation("MUSTPASS", fn.base, w["compute"], fn.loc, DISCHARGED,
                                   detail="under option '%s' every success return passes it" % w["option"]))
    for ch in tab["chain"]:
        for fn in F.need(ch["fn"]):
            pb = blocks_calling(fn, lambda n: n.get("objthis") and call_base(n) == ch["passes"])
            bad = must_pass(fn, pb)
            st = VIOLATION if (bad or not pb) else DISCHARGED
            rep.add(Obligation("MUSTPASS", fn.base, ch["passes"], fn.loc, st,
                               detail="every success return passes the stage hosting the count"
                               if st == DISCHARGED else "stage can be skipped on a success path"))

    # ---- option keys agree ------------------------------------------------
    setters = F.need("draco::EncoderBase::SetTrackEncodedProperties")
    for fn in setters:
        keys = set()
        for n, b, kind, ev in fn.calls():
            if call_base(n).endswith("::SetGlobalBool"):
                for a in n.get("args", []):
                    for s in walk(a):
                        if s.get("k") == "lit" and "s" in s:
                            keys.add(s["s"])
        for w in tab["workers"]:
            st = DISCHARGED if w["option"] in keys else VIOLATION
            rep.add(Obligation("OPTKEY", fn.base, w["option"], fn.loc, st,
                               detail="tracking switch writes the key the worker reads"
                               if st == DISCHARGED else
                               "tracking switch writes %s, worker reads '%s'" % (sorted(keys), w["option"])))

    # ---- overriders -------------------------------------------------------
    n_over = 0
    for ov in tab["overriders"]:
        base_cls = ov["base_class"]
        concrete = [c for c in F.all_subclasses(base_cls) | {base_cls}
                    if c in F.classes and not c.startswith("verif_control::")]
        for cname in sorted(concrete):
            c = F.classes[cname]
            # abstract classes (own pure methods) are not instantiable
            if any(m.get("pure") for m in c["methods"]):
                continue
            # final overrider: walk up until a class defines the method
            cur, found = cname, None
            seen = set()
            while cur and cur not in seen:
                seen.add(cur)
                cc = F.classes.get(cur)
                if cc is None:
                    break
                for m in cc["methods"]:
                    if m["sn"] == ov["method"] and not m.get("pure"):
                        found = m
                        break
                if found:
                    break
                cur = next((b for b in cc.get("bases", []) if b in F.classes), None)
            if not found:
                rep.add(Obligation("OVERRIDER", cname, ov["method"], c["loc"], VIOLATION,
                                   detail="concrete encoder has no implementation of " + ov["method"]))
                continue
            body = F.by_m.get(found["m"])
            if body is None:
                rep.add(Obligation("OVERRIDER", cname, ov["method"], c["loc"], VIOLATION,
                                   detail="no body for final overrider"))
                continue
            n_over += 1
            reach = body.reach_all()
            hit = [b for b in blocks_calling(
                body, lambda n: n.get("objthis") and call_base(n).endswith("::" + ov["setter"]))
                if b in reach]
            st = DISCHARGED if hit else VIOLATION
            rep.add(Obligation("OVERRIDER", cname, ov["method"], body.loc, st,
                               detail="final overrider %s reaches %s" % (body.name, ov["setter"])
                               if hit else "final overrider %s never calls %s" % (body.name, ov["setter"])))
    rep.floor("concrete encoder overriders of the count computation", n_over,
              tab["overriders_floor"])
    optfree(ctx, rep, tab)
    sectorclose(ctx, rep)


def optfree(ctx, rep, tab):
    """OPTFREE: the functions that compute the reported counts derive them from the geometry and the
    encoder's recorded state, never by reading the encoder options again: a second copy of an
    option-dependent decision (split on seams, speed thresholds) can disagree with the one the encoder
    actually took - the reported count then differs from the decoded one for some option set."""
    F = ctx.F
    rep.rules_text.append(
        "OPTFREE: no final overrider of ComputeNumberOfEncodedPoints / ComputeNumberOfEncodedFaces (nor a "
        "helper it calls on the same object or its implementation object) calls an option getter "
        "(*Options*::Get*/Is*Set/GetSpeed): counts follow what was encoded, not a re-derivation from the options")
    names = {(ov["method"]) for ov in tab["overriders"]}

    def is_opt_call(n):
        b = call_base(n)
        cls = b.rsplit("::", 1)[0]
        short = b.rsplit("::", 1)[-1]
        return ("Options" in cls and (short.startswith(("Get", "Is")))) or short in ("GetSpeed",)
    n_fn = 0
    fired = False
    for fn in F.fns.values():
        is_ctl = fn.name.startswith("verif_control::") and fn.name.endswith("c09_optfree_bad")
        if not is_ctl and not (fn.base.rsplit("::", 1)[-1] in names and fn.cls and
                               F.derives_from(strip_targs(fn.cls), "draco::PointCloudEncoder")):
            continue
        # the function and the draco callees it reaches without leaving the encoder objects (depth 2)
        todo, seen = [(fn, 0)], set()
        hits = []
        while todo:
            f, d = todo.pop()
            if f.key in seen:
                continue
            seen.add(f.key)
            for n, b, rk, ev in f.calls():
                if n.get("k") != "call":
                    continue
                if is_opt_call(n) and b in f.reach_all():
                    hits.append("%s at %s" % (call_base(n).replace("draco::", ""), f.site(n.get("loc", ""))))
                elif d < 2 and call_base(n).startswith("draco::Mesh") and "Encoder" in call_base(n):
                    for t in F.targets(n):
                        todo.append((t, d + 1))
        # the face count is a property of the connectivity the encoder codes (its corner table / the mesh's
        # face count), never a second opinion formed from attribute values of the input faces
        if fn.base.rsplit("::", 1)[-1] == "ComputeNumberOfEncodedFaces":
            for f_key in list(seen):
                f = F.fns.get(f_key)
                if f is None:
                    continue
                for n, b, rk, ev in f.calls():
                    if call_base(n) in ("draco::Mesh::face", "draco::PointAttribute::mapped_index",
                                        "draco::GeometryAttribute::GetValue", "draco::PointAttribute::GetMappedValue") \
                            and b in f.reach_all():
                        hits.append("%s at %s (face count re-derived from the input geometry)" % (
                            call_base(n).replace("draco::", ""), f.site(n.get("loc", ""))))
        if not is_ctl:
            n_fn += 1
        fired |= is_ctl and bool(hits)
        rep.add(Obligation("OPTFREE", fn.base, "count computation reads no options", fn.loc,
                           VIOLATION if hits else DISCHARGED,
                           detail="re-derives what was encoded instead of reading it off the encoder's state: %s" % hits[:3] if hits else
                           "derived from the geometry and the encoder's state (%d functions inspected)" % len(seen),
                           control=is_ctl))
    rep.floor("count-computing overriders inspected by OPTFREE", n_fn, 5)
    rep.control("OPTFREE", "c09_optfree_bad", fired, "option read inside a count computation must be reported")


def sectorclose(ctx, rep):
    """SECTORCLOSE: the Edgebreaker point counter adds `seams - 1` new points only for a vertex whose sectors
    close into a cycle.  Whether they do is a fact of the connectivity (the decoder's AssignPointsToCorners
    tests is_vert_hole_[v]); two different sectors may carry the same point id, so a test on point ids alone
    miscounts boundary vertices.  Obligation: the branch that selects the `- 1` form is decided by a
    corner-table predicate or a comparison of corner indices."""
    from ..cfgutil import dominating_edges
    F = ctx.F
    rep.rules_text.append(
        "SECTORCLOSE: in MeshEdgebreakerEncoder::ComputeNumberOfEncodedPoints the update `num_points += seams - 1` "
        "is dominated, inside the per-vertex loop, by a condition that consults the connectivity (a CornerTable "
        "predicate on the vertex or a comparison of CornerIndex values), not only point ids / counters")
    n = 0

    def topo_evidence(fn, tree, depth=0):
        """does the selecting expression consult the connectivity? (named bool locals are expanded)"""
        for x in walk(tree):
            if x.get("k") == "call" and strip_targs(x.get("fn") or "").startswith(
                    ("draco::CornerTable::", "draco::MeshAttributeCornerTable::")) and (x.get("ret") or "") == "bool":
                return True
            if x.get("k") in ("var", "field") and "CornerIndex_tag" in (x.get("t") or ""):
                return True
            if x.get("k") == "var" and "d" in x and depth < 2 and (x.get("t") or "").replace("const ", "") == "bool":
                for b2, ev2 in fn.events():
                    if ev2["k"] == "decl" and (ev2.get("var") or {}).get("d") == x["d"] and \
                            isinstance(ev2.get("e"), dict) and topo_evidence(fn, ev2["e"], depth + 1):
                        return True
        return False
    for fn in F.need("draco::MeshEdgebreakerEncoder::ComputeNumberOfEncodedPoints"):
        loops = fn.loops()
        for blk, rk, tree, ev in fn.roots():
            if tree is None:
                continue
            for nd in walk(tree):
                if nd.get("k") != "bin" or nd.get("op") != "+=":
                    continue
                r = nd.get("r")
                while isinstance(r, dict) and r.get("k") in ("icast", "cast"):
                    r = r.get("e")

                def minus_one(t):
                    while isinstance(t, dict) and t.get("k") in ("icast", "cast"):
                        t = t.get("e")
                    return isinstance(t, dict) and t.get("k") == "bin" and t.get("op") == "-" and \
                        isinstance(t.get("r"), dict) and t["r"].get("v") == 1
                selectors = []          # expressions that choose the `- 1` form
                b = nd.get("b", blk.id)
                if minus_one(r):
                    inner = sorted([l for l in loops if b in l[1]], key=lambda l: len(l[1]))
                    body = inner[0][1] if inner else set(fn.blocks)
                    edges = [(cb, oc, cond) for cb, oc, cond in dominating_edges(fn, b)
                             if cb.id in body and not isinstance(oc, tuple)]
                    edges.sort(key=lambda e_: len(fn.doms().get(e_[0].id, ())), reverse=True)
                    near = edges[:1]
                    grew = True
                    while grew:       # short-circuit operands of the same condition (`a && b` is two blocks)
                        grew = False
                        ids = {e_[0].id for e_ in near}
                        for e_ in edges:
                            if e_[0].id not in ids and (e_[0].term or "").startswith("BinaryOperator") and \
                                    set(fn.succs(e_[0].id)) & ids:
                                near.append(e_)
                                grew = True
                    selectors = [cond for cb, oc, cond in near]
                elif isinstance(r, dict) and r.get("k") == "cond" and (minus_one(r.get("t")) or minus_one(r.get("f"))):
                    selectors = [r.get("c")]      # `n += closed ? seams - 1 : seams`
                else:
                    continue
                topo = any(topo_evidence(fn, c) for c in selectors if isinstance(c, dict))
                n += 1
                rep.add(Obligation("SECTORCLOSE", fn.base, "num_points += seams - 1", fn.site(nd.get("loc", "")),
                                   DISCHARGED if topo else VIOLATION,
                                   detail="closed-fan case selected by a condition that consults the connectivity"
                                   if topo else
                                   "the `- 1` (closed fan) case is selected without consulting the connectivity: "
                                   "point ids of the first and last sector can coincide on a boundary vertex"))
    if n == 0:
        rep.note("SECTORCLOSE: no `+= seams - 1` update found in the point counter (restructured?): clause not decided")
    rep.floor("closed-fan adjustments in the Edgebreaker point counter", n, 0)
