"""CURSOR: a loop-carried cursor that indexes a container inside a loop must
advance on every path back to the loop header.

Instance: a local integer variable k, declared outside a natural loop L, that
is (a) used inside L as (part of) a subscript / at() index, and (b) advanced
inside L by ++ / += (not in L's own for-increment... that is the induction
variable and is advanced on every path by construction, which the rule also
verifies).  Obligation: there is no cycle use -> ... -> header -> ... -> use
inside L that avoids every block advancing k: otherwise two consecutive
iterations read the same slot (the per-attribute / per-component cursor of a
decoder stalls and later items are paired with the wrong data).
"""
from .facts import walk, strip_targs


def _var_ids(t):
    return {n["d"] for n in walk(t) if n.get("k") == "var" and "d" in n}


def index_uses(fn):
    """[(block, var d, container description, loc)] for subscript-like uses."""
    out = []
    seen = set()
    for blk, rk, tree, ev in fn.roots():
      if tree is None:
          continue
      for n in walk(tree):
        if id(n) in seen:
            continue
        seen.add(id(n))
        b = n.get("b", blk.id)
        idx = None
        k = n.get("k")
        if k == "sub":
            idx, base = n.get("idx"), n.get("base")
        elif k == "call" and (n.get("opcall") and (n.get("pat") or n.get("fn") or "").endswith("operator[]")
                              or strip_targs(n.get("fn") or "").endswith("::at")):
            args = n.get("args") or []
            if args:
                idx, base = args[0], n.get("obj")
        if idx is None:
            continue
        desc = None
        for x in walk(base or {}):
            if x.get("k") in ("field", "var"):
                desc = x.get("n")
                break
        for d in _var_ids(idx):
            out.append((b, d, desc or "?", n.get("loc", "")))
    # a cursor handed to a callee (`Transform<T>(att, num_processed_components)`) is a use too
    for blk, rk, tree, ev in fn.roots():
        if tree is None:
            continue
        for n in walk(tree):
            if n.get("k") != "call" or n.get("opcall"):
                continue
            for a in n.get("args") or []:
                t = a
                while isinstance(t, dict) and t.get("k") in ("icast", "copy", "cast"):
                    t = t.get("e")
                if isinstance(t, dict) and t.get("k") == "var" and "d" in t and (t.get("iw") or 0) > 1 \
                        and t.get("t") not in ("bool", "_Bool"):
                    out.append((n.get("b", blk.id), t["d"],
                                "argument of " + strip_targs(n.get("fn") or "?").split("::")[-1], n.get("loc", "")))
    return out


def advances(fn):
    """{var d: set(blocks)} where the variable is advanced (++, --, +=, -=) or re-assigned from itself."""
    out = {}
    for blk, rk, tree, ev in fn.roots():
      if tree is None:
          continue
      for n in walk(tree):
        b = n.get("b", blk.id)
        k = n.get("k")
        tgt = None
        if k == "un" and n.get("op") in ("++", "--", "post++", "post--", "pre++", "pre--"):
            tgt = n.get("e")
        elif k == "bin" and n.get("op") in ("+=", "-="):
            tgt = n.get("l")
        elif k == "bin" and n.get("op") == "=":
            l = n.get("l")
            if isinstance(l, dict) and l.get("k") == "var" and l.get("d") in _var_ids(n.get("r")):
                tgt = l
        while isinstance(tgt, dict) and tgt.get("k") in ("icast", "copy"):
            tgt = tgt.get("e")
        if isinstance(tgt, dict) and tgt.get("k") == "var" and "d" in tgt:
            out.setdefault(tgt["d"], set()).add(b)
    return out


def var_names(fn):
    names = {}
    for blk, rk, tree, ev in fn.roots():
        if tree is None:
            continue
        for n in walk(tree):
            if n.get("k") == "var" and "d" in n:
                names[n["d"]] = n.get("n")
    return names


def plain_assigns(fn):
    """{var d: set(blocks)} of assignments `k = expr` where expr does not mention k."""
    out = {}
    for blk, rk, tree, ev in fn.roots():
        if tree is None:
            continue
        for n in walk(tree):
            if n.get("k") == "bin" and n.get("op") == "=":
                l = n.get("l")
                if isinstance(l, dict) and l.get("k") == "var" and "d" in l and l["d"] not in _var_ids(n.get("r")):
                    out.setdefault(l["d"], set()).add(n.get("b", blk.id))
    return out


def decl_blocks(fn):
    out = {}
    for b, ev in fn.events():
        if ev["k"] == "decl" and "d" in (ev.get("var") or {}):
            out[ev["var"]["d"]] = (b.id, ev["var"])
    return out


def cursor_obligations(fn):
    """yields dict(var, container, loop header, use loc, ok, stall path description)"""
    uses = index_uses(fn)
    if not uses:
        return
    adv = advances(fn)
    decls = decl_blocks(fn)
    names = var_names(fn)
    plain = plain_assigns(fn)
    loops = sorted(fn.loops(), key=lambda l: len(l[1]))      # innermost first
    for (ub, d, cont, loc) in uses:
        if d not in adv:
            continue
        for header, body, latches in loops:
            if ub not in body:
                continue
            inc = {b for b in adv[d] if b in body}
            if not inc:
                continue
            # innermost loop that contains the use and advances the variable
            db = decls.get(d)
            if db is not None and db[0] in body and db[0] != header:
                break                         # declared inside the loop: not loop-carried
            if plain.get(d, set()) & body:
                break                         # re-initialised inside the loop: not carried across iterations
            cond = fn.blocks[ub].cond
            if cond is not None and d in _var_ids(cond) and any(
                    fn.edge_dominates((ub, s_), ib) for ib in inc for s_ in fn.succs(ub) if s_ in body):
                break                         # fill-then-advance: the slot is handed to the operation whose
                                              # outcome decides whether the cursor moves (output cursor)
            if ub in inc:
                ok, why = True, "advanced in the block of the use"
            else:
                # a cycle use -> loop header -> use inside the loop that avoids every advancing block?
                def avoid_reach(src, dst):
                    seen, stack = set(), [s for s in fn.succs(src) if s in body and s not in inc]
                    while stack:
                        x = stack.pop()
                        if x == dst:
                            return True
                        if x in seen:
                            continue
                        seen.add(x)
                        stack.extend(s for s in fn.succs(x) if s in body and s not in inc)
                    return False
                stall = (ub == header or avoid_reach(ub, header)) and (ub == header or avoid_reach(header, ub))
                ok = not stall
                why = "advanced on every path back to the loop header" if ok else \
                    "a path from the use back to the loop header avoids every `%s` advance" % names.get(d, "?")
            yield {"var": names.get(d, "?"), "d": d, "container": cont, "header": header, "block": ub,
                   "loc": loc, "ok": ok, "why": why, "inc_blocks": sorted(inc)}
            break


def run_cursor(rep, fns, rule="CURSOR"):
    """Obligations for the given functions (de-duplicated over instantiations).
    Returns (#non-trivial real obligations, control verdicts)."""
    from .core import Obligation, DISCHARGED, VIOLATION
    seen, ctl, n_real, n_nontrivial = set(), {}, 0, 0
    for fn in fns:
        is_ctl = fn.name.startswith("verif_control::")
        latches = {b for h, body, ls in fn.loops() for b in ls}
        for o in cursor_obligations(fn):
            site = fn.site(o["loc"])
            key = (fn.base, o["var"], o["container"], site)
            if key in seen:
                continue
            seen.add(key)
            trivial = set(o["inc_blocks"]) <= latches     # plain induction variable of a for loop
            rep.add(Obligation(rule, fn.base, ("%s(%s)" if o["container"].startswith("argument of ") else "%s[%s]") % (o["container"], o["var"]), site,
                               DISCHARGED if o["ok"] else VIOLATION,
                               detail="" if o["ok"] else o["why"] + " (two iterations read the same slot; "
                               "later items are paired with the wrong data)",
                               by=o["why"] if o["ok"] else "", trivial=trivial, control=is_ctl))
            if is_ctl:
                nm = fn.name.split("::")[-1]
                ctl[nm] = ctl.get(nm, True) and o["ok"]
            else:
                n_real += 1
                n_nontrivial += 0 if trivial else 1
    return n_real, n_nontrivial, ctl
