"""DISPATCH: constant -> constructed class / dispatched callee maps extracted
from CFG edges (if-chains, switch, early returns look the same), id getters,
and the agreement checks between the writer's and the reader's tables."""
from collections import defaultdict

from .facts import walk, strip_targs
from .cfgutil import dominating_edges
from .primbound import _atoms, _const


def _unwrap(t):
    while isinstance(t, dict) and t.get("k") in ("icast", "cast", "copy"):
        t = t.get("e")
    return t


def pins(fn, block):
    """Equality pins that hold at block: [(variable description, value)]"""
    out = []
    for cb, oc, cond in dominating_edges(fn, block):
        if isinstance(oc, tuple):
            if oc[0] == "case":
                sw = _unwrap(cb.cond)
                var = (sw.get("n") if isinstance(sw, dict) else None) or cb.condsrc
                if isinstance(sw, dict) and sw.get("k") == "call":
                    var = strip_targs(sw.get("fn") or "").rsplit("::", 1)[-1] + "()"
                out.append((var, oc[1]))
            continue
        for l, op, r in _atoms(cond, oc):
            if op != "==":
                continue
            for side, other in ((l, r), (r, l)):
                cv = _const(other)
                if cv is None or _const(side) is not None:
                    continue
                sd = _unwrap(side)
                if not isinstance(sd, dict):
                    continue
                if sd.get("k") in ("var", "field"):
                    var = sd.get("n")
                elif sd.get("k") == "call":
                    var = strip_targs(sd.get("fn") or "").rsplit("::", 1)[-1] + "()"
                else:
                    continue
                out.append((var, cv))
    return out


def _own_constructions(fn):
    for n, b, rk, ev in fn.nodes():
        k = n.get("k")
        if k == "new" and "array" not in n and n.get("t", "").startswith("draco::"):
            yield "new", n["t"], n
        elif k == "ctor" and n.get("cls", "").startswith("draco::"):
            yield "ctor", n["cls"], n


def constructs(fn, F=None):
    """[(pins, kind, target, site)] for every object construction (new /
    local ctor of a draco class) and every call to a draco function template
    with explicit class template arguments, under at least one pin.  With F,
    the constructions inside a same-file free helper called under the pin (an
    arm moved into `template <int N> bool EncodeWithLevel(...)`) count as the
    arm's own."""
    out = []
    for n, b, rk, ev in fn.nodes():
        k = n.get("k")
        tgt = None
        if k == "new" and "array" not in n:
            tgt, kind = n.get("t", ""), "new"
        elif k == "ctor" and n.get("cls", "").startswith("draco::"):
            tgt, kind = n.get("cls"), "ctor"
        elif k == "call" and (n.get("fn") or "").startswith("draco::") and "<" in (n.get("fn") or ""):
            tgt, kind = n.get("fn"), "call"
        helper = k == "call" and F is not None and not n.get("virt") and (n.get("fn") or "").startswith("draco::")
        if (not tgt or not tgt.startswith("draco::")) and not helper:
            continue
        p = pins(fn, b)
        if p:
            if tgt and tgt.startswith("draco::"):
                out.append((p, kind, tgt, fn.site(n.get("loc", ""))))
            if helper:
                tg = [t for t in F.targets(n) if not t.cls and t.file == fn.file]
                if len(tg) == 1:
                    for k2, t2, n2 in _own_constructions(tg[0]):
                        out.append((p, k2, t2, fn.site(n.get("loc", ""))))
    return out


def factory_map(F, fn_base, var, kinds=("new", "ctor", "call"), target_filter=None,
                param_consts=None, _depth=0):
    """value -> set(targets) for constructions pinned on `var` in all bodies
    of fn_base (template instantiations merged).  With param_consts, arms
    pinned to a value that no call site can pass for the parameter `var` are
    left out (the instantiation exists, the id cannot reach it)."""
    m = defaultdict(set)
    sites = {}
    for fn in F.find(fn_base):
        possible = None
        if param_consts is not None:
            for i, prm in enumerate(fn.params):
                if prm.get("n") == var:
                    possible = param_consts.values(fn, i)
        for p, kind, tgt, site in constructs(fn, F):
            if possible is not None and not any(v == var and val in possible for v, val in p):
                continue
            if kind not in kinds:
                continue
            if target_filter and not target_filter(tgt):
                continue
            for v, val in p:
                if v == var:
                    m[val].add(tgt)
                    sites[(val, tgt)] = site
    if not m and param_consts is None and _depth < 2:
        # the dispatch moved into a helper of the same class / file that receives the id as an argument
        # (`return DecodeWithLevel(level, ...)` with the switch inside): read the table there
        for fn in F.find(fn_base):
            for n, b, rk, ev in fn.calls():
                if n.get("virt"):
                    continue
                for i, a in enumerate(n.get("args") or []):
                    x = _unwrap(a)
                    if not (isinstance(x, dict) and x.get("k") == "var" and x.get("n") == var):
                        continue
                    for t in F.targets(n):
                        same = (t.cls and fn.cls and strip_targs(t.cls) == strip_targs(fn.cls)) or \
                               (not t.cls and t.file == fn.file) or t.is_lambda
                        if not same or i >= len(t.params) or not t.params[i].get("n"):
                            continue
                        m2, s2 = factory_map(F, t.base, t.params[i]["n"], kinds, target_filter, None, _depth + 1)
                        for val, ts in m2.items():
                            m[val] |= ts
                        sites.update(s2)
    return m, sites


def getter_value(F, cls, method):
    """Evaluated constant returned by the final overrider of `method` in
    class cls (walking up the bases), or None."""
    seen, cur = set(), cls
    while cur and cur not in seen:
        seen.add(cur)
        c = F.classes.get(cur)
        if c is None:
            return None
        for m in c["methods"]:
            if m["sn"] == method and not m.get("pure"):
                body = F.by_m.get(m["m"])
                if body is None:
                    return None
                vals = set()
                for b, ev in body.returns():
                    e = _unwrap(ev.get("e"))
                    if isinstance(e, dict) and "v" in e:
                        vals.add(e["v"])
                    else:
                        return None
                return vals.pop() if len(vals) == 1 else None
        cur = next((b for b in c.get("bases", []) if b in F.classes), None)
    return None


def concrete_subclasses(F, base):
    out = []
    for cn in sorted(F.all_subclasses(base) | {base}):
        c = F.classes.get(cn)
        if c is None or cn.startswith("verif_control::"):
            continue
        if any(m.get("pure") for m in c["methods"]):
            continue
        out.append(cn)
    return out


def enc_to_dec(name):
    """Sibling naming convention of the code base."""
    return (name.replace("Encoder", "Decoder").replace("Encoding", "Decoding")
            .replace("Encode", "Decode"))


class ParamConsts:
    """Possible constant values of a function parameter over all call sites in
    the analysed program (None = not a finite known set).  Arguments that are
    the caller's own parameter are followed interprocedurally."""

    def __init__(self, F):
        self.F = F
        self.callers = {}
        for fn in F.fns.values():
            for n, b, rk, ev in fn.calls():
                for t in F.targets(n):
                    self.callers.setdefault(t.key, []).append((fn, n))
        self.memo = {}

    def values(self, fn, idx, _stack=None):
        key = (fn.key, idx)
        if key in self.memo:
            return self.memo[key]
        _stack = _stack or set()
        if key in _stack:
            return set()
        _stack = _stack | {key}
        sites = self.callers.get(fn.key, [])
        if not sites:
            self.memo[key] = None
            return None
        out = set()
        for caller, call in sites:
            args = call.get("args", [])
            if idx >= len(args):
                self.memo[key] = None
                return None
            a = _unwrap(args[idx])
            c = _const(a) if isinstance(a, dict) else None
            if c is not None:
                out.add(c)
                continue
            if isinstance(a, dict) and a.get("k") == "var" and "p" in a:
                sub = self.values(caller, a["p"], _stack)
                if sub is None:
                    self.memo[key] = None
                    return None
                out |= sub
                continue
            self.memo[key] = None
            return None
        self.memo[key] = out
        return out
