"""PRIMBOUND: in the primitive reader classes every dereference of the input
window (raw pointer subscript / deref, memcpy / little-endian loads from a
window pointer, iterator deref, back()/front()/pop_back() on the reader's own
storage) is dominated by a comparison that mentions the accessed offset /
pointer / container.  For accesses of the shape base[v - K] or *(base + v - K)
the dominating comparison must establish v >= K.
"""
from .core import Obligation, DISCHARGED, VIOLATION, ALLOWED
from .facts import walk, strip_targs
from .cfgutil import dominating_edges
from .taint import REL_OPS, NEG, FLIP
from .cfgutil import _strip_not

LOADS = {"memcpy", "std::memcpy", "memmove", "__builtin_memcpy",
         "draco::mem_get_le16", "draco::mem_get_le24", "draco::mem_get_le32"}
LOAD_SRC_ARG = {"memcpy": 1, "std::memcpy": 1, "memmove": 1, "__builtin_memcpy": 1,
                "draco::mem_get_le16": 0, "draco::mem_get_le24": 0, "draco::mem_get_le32": 0}
LOAD_BYTES = {"draco::mem_get_le16": 2, "draco::mem_get_le24": 3, "draco::mem_get_le32": 4}
EMPTY_SENSITIVE = ("::back", "::front", "::pop_back", "::top", "::pop")


def places(t):
    out = set()
    for n in walk(t):
        k = n.get("k")
        if k == "var" and "d" in n:
            out.add(("v", n["d"]))
        elif k == "field":
            out.add(("f", n["n"]))
    return out


def _atoms(cond, outcome):
    tree, oc = _strip_not(cond, outcome)
    if not isinstance(tree, dict):
        return []
    if tree.get("k") == "bin" and tree.get("op") in ("||", "&&"):
        if (tree["op"] == "||" and not oc) or (tree["op"] == "&&" and oc):
            return _atoms(tree.get("l"), oc) + _atoms(tree.get("r"), oc)
        return []
    if tree.get("k") == "bin" and tree.get("op") in REL_OPS:
        op = tree["op"] if oc else NEG[tree["op"]]
        return [(tree.get("l"), op, tree.get("r"))]
    if tree.get("k") == "call":
        short = strip_targs(tree.get("fn") or "").rsplit("::", 1)[-1]
        if tree.get("opcall") and short.startswith("operator") and short[8:] in REL_OPS:
            op = short[8:]
            if "obj" in tree:
                l, r = tree["obj"], (tree.get("args") or [None])[0]
            else:
                a = tree.get("args") or [None, None]
                l, r = a[0], (a[1] if len(a) > 1 else None)
            return [(l, op if oc else NEG[op], r)]
        if short in ("empty",):
            # empty() false  ==  size > 0
            return [(tree.get("obj"), "!=" if not oc else "==", {"k": "lit", "v": 0})]
    # plain truth test of a value: x != 0 / x == 0
    return [(tree, "!=" if oc else "==", {"k": "lit", "v": 0})]


def _const(t):
    while isinstance(t, dict) and t.get("k") in ("icast", "cast") and "v" not in t:
        t = t.get("e")
    if isinstance(t, dict) and "v" in t:
        return t["v"]
    return None


def _minus_const(t):
    """If t is (.. + v - K) or (v - K): return (places of the variable part, K)."""
    while isinstance(t, dict) and t.get("k") in ("icast", "cast") and "v" not in t:
        t = t.get("e")
    if isinstance(t, dict) and t.get("k") == "bin" and t.get("op") == "-":
        k = _const(t.get("r"))
        if k is not None and k > 0:
            return places(t.get("l")), k
    return None


def access_sites(fn):
    """[(node, block, kind, mention_places, need)] need = (places, K) or None"""
    out = []
    for n, b, rk, ev in fn.nodes():
        k = n.get("k")
        if k == "sub":
            bt = n.get("bt", "")
            if "*" not in bt:
                continue
            idx = n.get("idx")
            mp = places(idx) | places(n.get("base"))
            need = _minus_const(idx)
            un = idx
            while isinstance(un, dict) and un.get("k") in ("icast",):
                un = un.get("e")
            if isinstance(un, dict) and un.get("k") == "un" and un.get("op") == "--" and not un.get("post"):
                need = (places(un.get("e")), 1)
            if need is None and _const(idx) is not None:
                # constant index into a pointer parameter of a fixed-size load helper
                continue
            out.append((n, b, "raw subscript", mp, need))
        elif k == "un" and n.get("op") == "*":
            e = n.get("e")
            # only pointer arithmetic / pointer fields, not `*this` or out-params
            if isinstance(e, dict) and e.get("k") == "field" and "*" in e.get("t", "") \
                    and "const" in e.get("t", ""):
                out.append((n, b, "pointer deref", places(e), None))
        elif k == "call":
            base = strip_targs(n.get("fn") or "")
            if base in LOADS:
                args = n.get("args", [])
                si = LOAD_SRC_ARG[base]
                if si < len(args):
                    src = args[si]
                    mp = places(src)
                    for a in args[si + 1:]:
                        mp |= places(a)
                    need = _minus_const(src)
                    if need is not None and base in LOAD_BYTES:
                        need = (need[0], max(need[1], LOAD_BYTES[base]))
                    # a load from a local object (e.g. &tmp) is not a window access
                    if not mp:
                        continue
                    roots = [s for s in walk(src) if s.get("k") in ("field", "var")]
                    if roots and all("*" not in r.get("t", "") for r in roots
                                     if r.get("k") in ("field", "var")) and \
                            not any(s.get("k") == "call" for s in walk(src)):
                        continue
                    out.append((n, b, "load via %s" % base, mp, need))
            elif base.endswith("::operator*") and "__normal_iterator" in base or \
                    base.endswith("_iterator::operator*"):
                obj = n.get("obj")
                if isinstance(obj, dict) and obj.get("k") == "field":
                    out.append((n, b, "iterator deref", places(obj), None))
            elif base.endswith(EMPTY_SENSITIVE) and base.startswith("std::"):
                obj = n.get("obj")
                if isinstance(obj, dict) and obj.get("k") == "field" and obj.get("this"):
                    out.append((n, b, "%s on own storage" % base.rsplit("::", 1)[-1],
                                places(obj), None))
    return out


def _sign_wrap(t):
    """The comparison side as a whole is `(unsigned 64)(signed non-constant)` (explicit or implicit
    conversion, possibly through several cast nodes): returns the signed operand or None."""
    n = t
    while isinstance(n, dict) and n.get("k") in ("copy", "paren"):
        n = n.get("e")
    if not (isinstance(n, dict) and n.get("k") in ("cast", "icast") and n.get("is") is False and
            (n.get("iw") or 0) >= 64 and "v" not in n):
        return None
    e = n
    while isinstance(e, dict) and e.get("k") in ("cast", "icast", "copy", "paren") and "v" not in e:
        e = e.get("e")
    if isinstance(e, dict) and e.get("is") is True and "v" not in e and (e.get("iw") or 0) >= 32 and \
            e.get("k") in ("call", "bin", "var", "field", "param"):
        return e
    return None


def _hazard(atoms):
    """An atom bounds something by an unsigned view of a signed value that no other atom of the same
    conjunction shows to be non-negative: in a primitive reader the read position may already lie behind the
    end of the data, `remaining` is negative and the comparison passes for every size."""
    from .taint import _tree_eq
    for l, op, r in atoms:
        for side in (l, r):
            e = _sign_wrap(side) if isinstance(side, dict) else None
            if e is None:
                continue
            nonneg = False
            for l2, op2, r2 in atoms:
                for a, b_, o in ((l2, r2, op2), (r2, l2, FLIP[op2])):
                    c = _const(b_) if isinstance(b_, dict) else None
                    if c is not None and isinstance(a, dict) and _tree_eq(a, e) and \
                            ((o == ">=" and c >= 0) or (o == ">" and c >= -1)):
                        nonneg = True
            if not nonneg:
                return True
    return False


def _helper_atoms(F, call, oc):
    """`if (!CanRead(n)) return false;`: the conditions the bool helper returns, when its body is that simple."""
    if F is None or not isinstance(call, dict) or call.get("k") != "call" or not oc:
        return None
    for tgt in F.targets(call):
        if tgt.ret.get("t") != "bool":
            continue
        rets = [ev.get("e") for b, ev in tgt.returns()]
        conds = [e for e in rets if isinstance(e, dict) and not (e.get("k") == "lit")]
        if len(conds) == 1 and len(rets) == 1:
            return _atoms(conds[0], True)
    return None


def guard_for(fn, block, mention, need, F=None):
    for cb, oc, cond in dominating_edges(fn, block):
        if isinstance(oc, tuple):
            continue
        ats = _atoms(cond, oc)
        tree, oc2 = _strip_not(cond, oc)
        ha = _helper_atoms(F, tree, oc2)
        if _hazard(ats) or (ha is not None and _hazard(ha)):
            continue          # not a bound: see _hazard
        for l, op, r in ats:
            if l is None or r is None:
                continue
            pl, pr = places(l), places(r)
            if need is not None:
                vp, K = need
                # v >= K' / v > K'-1 with K' >= K
                for side, other, o in ((l, r, op), (r, l, FLIP[op])):
                    c = _const(other)
                    if c is None or not (places(side) & vp):
                        continue
                    if (o == ">=" and c >= K) or (o == ">" and c >= K - 1) or \
                            (o == "!=" and c == 0 and K == 1) or (o == "==" and c >= K):
                        return "`%s` (%s edge) at %s establishes offset >= %d" % (
                            cb.condsrc, "true" if oc else "false", fn.site(cb.tloc or ""), K)
                continue
            if (pl | pr) & mention:
                return "`%s` (%s edge) at %s" % (cb.condsrc, "true" if oc else "false",
                                                 fn.site(cb.tloc or ""))
    return None


def run(ctx, rep, scope_fns, rule, allow, classes, free_fns, control_names=()):
    F = ctx.F
    seen = set()
    n_real = 0
    ctl = {}
    for fn in scope_fns:
        cls = strip_targs(fn.cls or "")
        is_ctl = fn.name.startswith("verif_control::")
        if not (cls in classes or fn.base in free_fns or is_ctl):
            continue
        for n, b, kind, mention, need in access_sites(fn):
            site = fn.site(n.get("loc", ""))
            key = (fn.base, site, kind)
            if key in seen:
                continue
            seen.add(key)
            if b not in fn.reach_all():
                continue
            why = guard_for(fn, b, mention, need, F)
            construct = kind
            if why:
                st, det, by = DISCHARGED, kind, why
            else:
                akey = "%s|%s" % (fn.base, kind)
                det = "%s with no dominating comparison on the accessed offset%s" % (
                    kind, (" (needs offset >= %d)" % need[1]) if need else "")
                if akey in allow:
                    st, by = ALLOWED, allow[akey]
                else:
                    st, by = VIOLATION, ""
            rep.add(Obligation(rule, fn.base, construct, site, st, detail=det, by=by,
                               control=is_ctl))
            if is_ctl:
                ctl.setdefault(fn.name.split("::")[-1], []).append(st)
            else:
                n_real += 1
    for name in control_names:
        sts = ctl.get(name, [])
        if name.endswith("_bad"):
            rep.control(rule, name, VIOLATION in sts, "must be reported")
        else:
            rep.control(rule, name + " (negative)", bool(sts) and all(s == DISCHARGED for s in sts),
                        "bounded form must be discharged")
    return n_real
